"""Per-property plans: which specification groups / bounds decide which property at which tier."""
import json
import subprocess
import sys
from seqcheck import ToolError, run_seq_check, build_harness, write_evidence
from conccheck import run_conc_check

F, R = [False], [False, True]
SEQ = {
    # property: (monitor flags, quick plan, thorough plan, DESIGN.md section)
    'C01': (['C01'], [('direct', 4, F), ('single1', 3, F), ('single2', 3, F), ('single3', 3, F), ('errops', 3, F), ('multi', 3, R), ('depth2', 3, F)],
            [('direct', 5, F), ('single1', 4, F), ('single2', 4, F), ('single3', 4, R), ('errops', 4, F), ('multi', 4, R), ('depth2', 4, F)], '6 C01'),
    'C02': (['REF', 'TAP'], [('creators', 2, F), ('single1', 4, F), ('single2', 4, F), ('single3', 3, F), ('c14', 2, F)],
            [('creators', 3, F), ('single1', 5, F), ('single2', 5, F), ('single3', 4, R), ('depth2', 4, F)], '6 C02'),
    'C06': (['C06'], [('single1', 3, F), ('single2', 3, F), ('single3', 3, F), ('errops', 3, F), ('multi', 4, R), ('endless', 2, F), ('flatdeep', 7, F), ('subjects', 3, R)],
            [('single1', 4, F), ('single2', 4, F), ('single3', 4, R), ('errops', 4, F), ('multi', 4, R), ('endless', 3, F), ('depth2', 4, F), ('flatdeep', 8, R)], '6 C06'),
    'C03': (['REF'], [('multi', 4, R), ('c14', 2, F)], [('multi', 5, R), ('multi3', 4, F)], '6 C03'),
    'C04': (['REF'], [('errops', 4, F), ('errsubj', 4, F)], [('errops', 5, F), ('errdeep', 4, F), ('errsubj', 5, F)], '6 C04'),
    'C05': (['C05'], [('direct', 4, F), ('single1', 3, F), ('single2', 3, F), ('single3', 3, F), ('errops', 3, F), ('multi', 3, R), ('subjects', 4, R)],
            [('direct', 5, F), ('single1', 4, F), ('single2', 4, F), ('single3', 4, R), ('errops', 4, F), ('multi', 4, R), ('subjects', 5, R), ('depth2', 4, F)], '6 C05'),
    'C07': (['C07'], [('reent', 3, R), ('subjects', 3, R), ('conn', 3, R), ('endless', 2, F), ('single3', 3, F), ('multi', 3, F)],
            [('reent', 4, R), ('subjects', 4, R), ('conn', 4, R), ('endless', 3, F), ('single1', 4, F), ('single2', 4, F), ('single3', 4, R), ('errops', 4, F), ('multi', 4, R)], '6 C07'),
    'C10': (['C10'], [('subjects', 4, R), ('subjects3', 6, R)], [('subjects', 5, R), ('subjects3', 8, R)], '6 C10'),
    'C13': (['C13'], [('conn', 4, R), ('conn3', 6, R)], [('conn', 6, R), ('conn3', 8, R)], '6 C13'),
    'C14': (['REF', 'TAP'], [('c14', 2, F), ('c14hot', 4, F), ('c14multi', 6, F), ('subjects3', 5, F)], [('c14', 3, F), ('c14hot', 5, F), ('c14multi', 7, F), ('subjects3', 6, F)], '6 C14'),
    'C17': (['C17'], [('single1', 3, F), ('single2', 3, F), ('single3', 3, F), ('errops', 3, F), ('multi', 3, R), ('direct', 3, F), ('subjects', 3, R), ('flatdeep', 7, F)],
            [('single1', 4, F), ('single2', 4, F), ('single3', 4, R), ('errops', 4, F), ('multi', 4, R), ('direct', 4, F), ('subjects', 4, R), ('depth2', 4, F)], '6 C17'),
}


# concurrent part: property -> (monitor flags of ConcProps.Judge, design-level models [(module, tag, cfg text)])
def sinkconc(n, m, invs, fin=False):
    return ('SinkConc', 'sinkconc_%d_%d%s' % (n, m, '_fin' if fin else ''),
            'SPECIFICATION Spec\nCONSTANTS NThreads = %d\n MaxCalls = %d\n ArbiterFix = TRUE\n WithFinalize = %s\nINVARIANTS %s\nCHECK_DEADLOCK FALSE\n' % (n, m, 'TRUE' if fin else 'FALSE', ' '.join(invs)))


def subjconc(kind, n, unsub, expect=None):
    return ('SubjectConc', 'subjconc_%s_%d_%s' % (kind, n, 'u' if unsub else 'n'),
            'SPECIFICATION Spec\nCONSTANTS Kind = "%s"\n NValues = %d\n WithUnsub = %s\nINVARIANTS NoDup InOrder StableGetsAll LateSuffix BehaviorFirst\nCHECK_DEADLOCK FALSE\n'
            % (kind, n, 'TRUE' if unsub else 'FALSE'), expect)


def schedqueue(nc, ops, aborting, tag):
    return ('SchedQueue', 'schedqueue_' + tag,
            'SPECIFICATION Spec\nCONSTANTS NClients = %d\n MaxOps = %d\n AbortingTasks = %s\n SpuriousWake = TRUE\n'
            'INVARIANTS OneAtATime AtMostOnce OnlyPosted Fifo NothingTakenAfterAbortReturned\nPROPERTIES NoLostWakeup WorkerExitsAfterAbort\nCHECK_DEADLOCK TRUE\n' % (nc, ops, aborting))


def tovec(n, fails):
    return ('ToVec', 'tovec_%d_%s' % (n, 'err' if fails else 'ok'),
            'SPECIFICATION Spec\nCONSTANTS NItems = %d\n Fails = %s\n WakerFirst = FALSE\nINVARIANTS ReadyOnlyAfterTerminal ResultIsEverything ResultIsTheError\nPROPERTY EventuallyReady\nCHECK_DEADLOCK FALSE\n'
            % (n, 'TRUE' if fails else 'FALSE'))


def combconc(n, items, amb):
    return ('CombConc', 'combconc_%s_%dx%d' % ('amb' if amb else 'merge', n, items),
            'SPECIFICATION Spec\nCONSTANTS NInputs = %d\n NItems = %d\n Amb = %s\n AtomicRemove = TRUE\n AtomicElect = TRUE\n'
            'INVARIANTS ExactlyOneComplete AtMostOneComplete CompleteIsLast NothingLost OneWinner WinnerComplete\nCHECK_DEADLOCK FALSE\n' % (n, items, 'TRUE' if amb else 'FALSE'))


def observeon(n, ending, unsub, fb=False):
    return ('ObserveOn', 'observeon_%d_%s_%s%s' % (n, ending, 'u' if unsub else 'n', '_fb' if fb else ''),
            'SPECIFICATION Spec\nCONSTANTS NItems = %d\n Ending = "%s"\n WithUnsub = %s\n ErrorDirect = FALSE\n Feedback = %s\n InlineFromWorker = FALSE\n'
            'INVARIANTS OrderOK OnWorker TerminalLast NothingLost NothingAfterUnsub NeverNested FedBackAtMostOnce\nPROPERTY WorkerExits\nCHECK_DEADLOCK FALSE\n' % (n, ending, 'TRUE' if unsub else 'FALSE', 'TRUE' if fb else 'FALSE'))


def subscribeon(n, completes, unsub):
    return ('SubscribeOn', 'subscribeon_%d_%s_%s' % (n, 'c' if completes else 'open', 'u' if unsub else 'n'),
            'SPECIFICATION Spec\nCONSTANTS NItems = %d\n Completes = %s\n WithUnsub = %s\n HookInJob = FALSE\n'
            'INVARIANTS OrderOK OnWorker NothingAfterUnsub NothingLost\nPROPERTY WorkerExits\nCHECK_DEADLOCK FALSE\n' % (n, 'TRUE' if completes else 'FALSE', 'TRUE' if unsub else 'FALSE'))


def debounce(n, fb=False):
    return ('Debounce', 'debounce_%d%s' % (n, '_fb' if fb else ''),
            'SPECIFICATION Spec\nCONSTANTS D = 100\n Gaps = {40, 90, 110, 260}\n MaxEvents = %d\n ReadNotTake = FALSE\n Feedback = %s\n HoldLockWhileDelivering = FALSE\n'
            'INVARIANTS OnlyEmitted InOrderNoneTwice NothingAfterEnd ExitWithinOnePeriod NeverStuck\nPROPERTY WorkerExits\nCHECK_DEADLOCK FALSE\n' % (n, 'TRUE' if fb else 'FALSE'))


def sampleconc(n, t):
    return ('SampleConc', 'sampleconc_%dx%d' % (n, t),
            'SPECIFICATION Spec\nCONSTANTS NItems = %d\n NTicks = %d\n Completes = TRUE\n ReadNotTake = FALSE\n TwoStepTake = FALSE\n'
            'INVARIANTS OnlyEmitted InOrderNoneTwice FreshIsInSlot NothingAfterComplete\nCHECK_DEADLOCK FALSE\n' % (n, t))


def timedsources(kind, n=2):
    return ('TimedSources', 'timedsources_%s%s' % (kind, '_%d' % n if kind == 'delay' else ''),
            'SPECIFICATION Spec\nCONSTANTS Kind = "%s"\n D = 100\n UGrid = {55, 175, 250}\n Horizon = 450\n Gaps = {40, 90, 260}\n MaxEvents = %d\n EmitThenSleep = FALSE\n NoPoll = FALSE\n'
            'INVARIANTS IntervalExact IntervalKeepsGoing NothingAfterUnsub TimerExact TimerFires DelayExact DelayOrder DelayAll ExitWithinOnePeriod\nPROPERTY WorkerExits\nCHECK_DEADLOCK FALSE\n' % (kind, n))


def refcountconc(leavers, stayers):
    return ('RefCountConc', 'refcountconc_%dl_%ds' % (leavers, stayers),
            'SPECIFICATION Spec\nCONSTANTS Leavers = {%s}\n Stayers = {%s}\n Recheck = TRUE\nINVARIANTS AtMostOneSource PresentMeansConnected EmptyMeansReleased\nCHECK_DEADLOCK FALSE\n'
            % (', '.join(str(i) for i in range(1, leavers + 1)), ', '.join(str(i) for i in range(leavers + 1, leavers + stayers + 1))))


def zipconc(n, items):
    return ('ZipConc', 'zipconc_%dx%d' % (n, items),
            'SPECIFICATION Spec\nCONSTANTS NInputs = %d\n NItems = %d\n EmitUnderLock = FALSE\nINVARIANTS RowsPairPositions NoRowTwice AllRowsEmitted RowsInOrder\nCHECK_DEADLOCK FALSE\n' % (n, items),
            'RowsInOrder (KF-C11-zip-reorder)')


def timedops(n):
    return ('TimedOps', 'timedops_%d' % n,
            'SPECIFICATION Spec\nCONSTANTS D = 100\n Gaps = {40, 90, 110, 260}\n MaxEvents = %d\n CancelOnEnd = TRUE\n ArmAfterEnd = FALSE\n'
            'INVARIANTS TimeoutExact NoTimeoutBeforeFirstItem OneTerminalLast TimeoutHappens ExitWithinOnePeriod\nPROPERTY AllExit\nCHECK_DEADLOCK FALSE\n' % n)


C19INV = ['AtMostOneTerminal', 'NothingStartedAfterTerminal', 'ExactlyOneAtTheEnd']


def sinkind(n):
    return ('SinkInd', 'apalache', n)

CONC = {
    # property: (monitor flags of ConcProps.Judge, design-level models quick, thorough)
    'C19': (['C19'], [sinkconc(2, 2, C19INV), sinkconc(2, 1, C19INV, fin=True), sinkind(3)], [sinkconc(2, 2, C19INV), sinkconc(3, 1, C19INV), sinkconc(2, 3, C19INV), sinkconc(2, 2, C19INV, fin=True), sinkind(5)]),
    'C11': (['C11', 'C19'], [sinkconc(2, 2, ['AtMostOneTerminal']), combconc(3, 1, False), combconc(3, 2, True), zipconc(2, 2)],
            [sinkconc(3, 1, ['AtMostOneTerminal']), combconc(3, 2, False), combconc(4, 1, False), combconc(3, 3, True), zipconc(2, 3), zipconc(3, 2)]),
    'C07': (['C07'], [schedqueue(2, 2, '{11}', 'deadlock_2x2')], [schedqueue(2, 3, '{11}', 'deadlock_2x3'), schedqueue(3, 1, '{11}', 'deadlock_3x1')]),
    'C08': (['C08'], [schedqueue(2, 2, '{11}', '2x2_abort_inside')], [schedqueue(2, 2, '{11}', '2x2_abort_inside'), schedqueue(2, 3, '{}', '2x3'), schedqueue(3, 1, '{11}', '3x1')]),
    'C09': (['C09'], [schedqueue(1, 3, '{13}', 'handoff_1x3_abort_in_last'), observeon(3, 'c', False), observeon(2, 'e', True), observeon(2, 'c', True, fb=True), subscribeon(3, True, False), subscribeon(2, True, True)],
            [schedqueue(1, 3, '{13}', 'handoff_1x3_abort_in_last'), schedqueue(2, 2, '{}', 'handoff_2x2'), observeon(4, 'c', True), observeon(4, 'e', True), observeon(3, 'none', True), observeon(3, 'c', True, fb=True), observeon(3, 'none', True, fb=True), subscribeon(4, True, True), subscribeon(3, False, True)]),
    'C15': (['C15'], [schedqueue(1, 2, '{12}', 'lifecycle'), timedops(3), observeon(2, 'none', True), subscribeon(2, False, True), timedsources('interval')], [schedqueue(2, 2, '{11}', 'lifecycle2'), timedops(4), observeon(3, 'e', True), observeon(3, 'none', True)]),
    'C16': (['C16'], [timedops(3), debounce(3), debounce(2, fb=True), sampleconc(3, 3), timedsources('interval'), timedsources('timer'), timedsources('delay', 2)],
            [timedops(4), debounce(4), debounce(3, fb=True), sampleconc(5, 5), timedsources('interval'), timedsources('timer'), timedsources('delay', 4)]),
    'C18': (['C18'], [tovec(2, False), tovec(2, True)], [tovec(4, False), tovec(4, True)]),
    'C13': (['C13'], [refcountconc(2, 1)], [refcountconc(3, 1), refcountconc(2, 2)]),
    'C04': (['C04'], [], []),
    'C06': (['C06'], [], []),
    'C14': (['C14'], [], []),
    'C12': (['C12'], [subjconc('plain', 3, False), subjconc('plain', 3, True), subjconc('replay', 3, False, 'NoDup (KF-C12-replay-latesub-duplicate)'), subjconc('behavior', 3, False, 'NoDup (KF-C12-behavior-latesub-duplicate)')],
            [subjconc('plain', 4, False), subjconc('plain', 4, True), subjconc('replay', 4, False, 'NoDup (KF-C12-replay-latesub-duplicate)'), subjconc('behavior', 4, True, 'NoDup (KF-C12-behavior-latesub-duplicate)')]),
    'C05': (['C05'], [sinkconc(2, 2, ['UnsubStops']), sinkind(3)], [sinkconc(2, 3, ['UnsubStops']), sinkconc(3, 1, ['UnsubStops']), sinkind(5)]),
}


# random deeper pipelines (impl -> spec): property -> (quick n, thorough n, ill-formed cold scripts allowed)
FUZZ = {'C01': (400, 20000, True), 'C02': (400, 20000, False), 'C03': (400, 20000, False), 'C04': (400, 20000, False), 'C05': (400, 20000, True),
        'C06': (400, 20000, True), 'C07': (400, 20000, True), 'C14': (400, 20000, False), 'C17': (400, 20000, True),
        # long random call sequences (8-24 stimuli) on a subject / a connectable over a hot source
        'C10': (300, 6000, 'hot'), 'C13': (300, 6000, 'hot')}


def fz(prop, tier):
    f = FUZZ.get(prop)
    return dict(fuzz=(f[0] if tier == 'quick' else f[1]), fuzz_ill=(f[2] is True), fuzz_hot=(f[2] == 'hot')) if f else {}


def run(prop, tier, seed):
    seq = SEQ.get(prop)
    conc = CONC.get(prop)
    if seq and not conc:
        flags, q, t, ref = seq
        return run_seq_check(prop, tier, flags, q if tier == 'quick' else t, seed, ref, **fz(prop, tier))
    if conc and not seq:
        return run_conc_check(prop, tier, conc[0], seed, '6 ' + prop, models=conc[1] if tier == 'quick' else conc[2])
    if seq and conc:
        flags, q, t, ref = seq
        rc1, ev1, l1, s1 = run_seq_check(prop, tier, flags, q if tier == 'quick' else t, seed, ref, write=False, **fz(prop, tier))
        rc2, ev2, l2, s2 = run_conc_check(prop, tier, conc[0], seed, '6 ' + prop, models=conc[1] if tier == 'quick' else conc[2], write=False, clear_replays=False)
        ev = ev1
        c1, c2 = ev1['coverage'], ev2['coverage']
        c1['states'] += c2['states']
        c1['transitions'] += c2['transitions']
        c1['traces_validated_against_impl'] += c2['traces_validated_against_impl']
        c1['evaluations'] += c2['evaluations']
        c1['distinct_nontrivial'] += c2['distinct_nontrivial']
        c1['exhaustive'] = c1['exhaustive'] and c2['exhaustive']
        c1['concurrent_part'] = {k: c2[k] for k in c2 if k != 'samples'}
        c1['samples'] += c2['samples'][:1]
        c1['rule'] += ' || concurrent part: ' + c2['rule']
        ev['assumptions'] += ev2['assumptions']
        ev['wall_s'] = round(ev1['wall_s'] + ev2['wall_s'], 1)
        ev['violations'] = ev1['violations'] + ev2['violations']
        write_evidence(prop, ev, l1 + l2, s1 + '\n' + s2)
        return 1 if (rc1 or rc2) else 0
    raise ToolError('no check for ' + prop)


def replay(path):
    """re-runs the recorded case on the real crate (a concurrent one under its recorded schedule) and lets TLC judge the new trace"""
    body = json.load(open(path))
    h = build_harness()
    if body.get('kind') == 'tok':
        r = subprocess.run([h, 'tok-all', '--op', body['op']], capture_output=True, text=True)
        sys.stdout.write(r.stdout)
        sys.stderr.write(r.stderr)
        for line in r.stdout.splitlines():
            if '"ev":"tok"' in line:
                v = json.loads(line)
                print('item tokens alive after the end (%s, %s): %d of %d -> %s' % (v['op'], v['ending'], v['live'], v['emitted'], 'REJECTED (TokTrace!ItemsReleased)' if v['live'] or v['fin'] != 'ok' else 'accepted'))
    elif body.get('kind') == 'conc':
        import os, shutil
        import conccheck
        r = subprocess.run([h, 'conc-one', '--case', path], capture_output=True, text=True)
        sys.stdout.write(r.stdout)
        sys.stderr.write(r.stderr)
        work = '/tmp/arxv-replay-%d' % os.getpid()
        shutil.rmtree(work, ignore_errors=True)
        os.makedirs(work + '/gen')
        try:
            for m in os.listdir(conccheck.SPEC):
                if m.endswith('.tla'):
                    shutil.copy(conccheck.SPEC + '/' + m, work + '/gen/' + m)
            with open(work + '/one.ndjson', 'w') as f:
                f.write(r.stdout)
            verdicts, _ = conccheck.validate(work, [work + '/one.ndjson'], 'ConcTrace', 'replay')
            for tid, v in verdicts.items():
                print('TLC verdict of the replayed execution: %s = %s (fin %s)' % (body.get('monitor'), v['rej'].get(body.get('monitor')), v['fin']))
        finally:
            shutil.rmtree(work, ignore_errors=True)
    else:
        import shutil
        import seqcheck
        r = subprocess.run([h, 'seq-one', '--case', path], capture_output=True, text=True)
        lines = [x for x in r.stdout.splitlines() if x.startswith('{')]
        sys.stdout.write('\n'.join(lines) + '\n')
        work = seqcheck.make_workdir('replay')
        try:
            with open(work + '/one.ndjson', 'w') as f:
                f.write('\n'.join(lines) + '\n')
            for tid, v in seqcheck.validate_traces(work, [work + '/one.ndjson'], 'replay').items():
                flag = body.get('monitor')
                print('TLC verdict of the replayed execution: %s %s; %s' % (flag, 'REJECTED at line %s' % v['rej'][flag] if v['rej'].get(flag) else 'accepted',
                                                                            'differs from the L1 model' if v['drift'] else 'agrees with the L1 model'))
        finally:
            shutil.rmtree(work, ignore_errors=True)
    print('replayed %s (property %s, monitor %s)' % (path, body.get('property'), body.get('monitor')))
    return 0
