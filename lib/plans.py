"""Per-property plans: which specification groups / bounds decide which property at which tier."""
import json
import subprocess
import sys
from seqcheck import ToolError, run_seq_check, build_harness

F, R = [False], [False, True]
SEQ = {
    # property: (monitor flags, quick plan, thorough plan, DESIGN.md section)
    'C01': (['C01'], [('direct', 4, F), ('single1', 3, F), ('single2', 3, F), ('single3', 3, F), ('errops', 3, F), ('multi', 3, R), ('depth2', 3, F)],
            [('direct', 5, F), ('single1', 4, F), ('single2', 4, F), ('single3', 4, R), ('errops', 4, F), ('multi', 4, R), ('depth2', 4, F)], '6 C01'),
    'C02': (['REF', 'TAP'], [('creators', 2, F), ('single1', 4, F), ('single2', 4, F), ('single3', 3, F)],
            [('creators', 3, F), ('single1', 5, F), ('single2', 5, F), ('single3', 4, R), ('depth2', 4, F)], '6 C02'),
    'C06': (['C06'], [('single1', 3, F), ('single2', 3, F), ('single3', 3, F), ('errops', 3, F), ('multi', 3, R), ('endless', 2, F)],
            [('single1', 4, F), ('single2', 4, F), ('single3', 4, R), ('errops', 4, F), ('multi', 4, R), ('endless', 3, F), ('depth2', 4, F)], '6 C06'),
    'C03': (['REF'], [('multi', 4, R)], [('multi', 5, R), ('multi3', 4, F)], '6 C03'),
    'C04': (['REF'], [('errops', 4, F)], [('errops', 5, F), ('errdeep', 4, F)], '6 C04'),
    'C05': (['C05'], [('direct', 4, F), ('single1', 3, F), ('single2', 3, F), ('single3', 3, F), ('errops', 3, F), ('multi', 3, R), ('subjects', 4, R)],
            [('direct', 5, F), ('single1', 4, F), ('single2', 4, F), ('single3', 4, R), ('errops', 4, F), ('multi', 4, R), ('subjects', 5, R), ('depth2', 4, F)], '6 C05'),
    'C07': (['C07'], [('reent', 3, R), ('subjects', 3, R), ('conn', 3, R), ('endless', 2, F), ('single3', 3, F), ('multi', 3, F)],
            [('reent', 4, R), ('subjects', 4, R), ('conn', 4, R), ('endless', 3, F), ('single1', 4, F), ('single2', 4, F), ('single3', 4, R), ('errops', 4, F), ('multi', 4, R)], '6 C07'),
    'C10': (['C10'], [('subjects', 4, R)], [('subjects', 6, R)], '6 C10'),
    'C13': (['C13'], [('conn', 4, R)], [('conn', 6, R)], '6 C13'),
    'C14': (['REF', 'TAP'], [('c14', 2, F), ('c14hot', 4, F)], [('c14', 3, F), ('c14hot', 5, F)], '6 C14'),
    'C17': (['C17'], [('single1', 3, F), ('single2', 3, F), ('single3', 3, F), ('errops', 3, F), ('multi', 3, R), ('direct', 3, F), ('subjects', 3, R)],
            [('single1', 4, F), ('single2', 4, F), ('single3', 4, R), ('errops', 4, F), ('multi', 4, R), ('direct', 4, F), ('subjects', 4, R), ('depth2', 4, F)], '6 C17'),
}


def run(prop, tier, seed):
    if prop in SEQ:
        flags, q, t, ref = SEQ[prop]
        return run_seq_check(prop, tier, flags, q if tier == 'quick' else t, seed, ref)
    raise ToolError('no check for ' + prop)


def replay(path):
    body = json.load(open(path))
    h = build_harness()
    r = subprocess.run([h, 'seq-one', '--case', path], capture_output=True, text=True)
    sys.stdout.write(r.stdout)
    sys.stderr.write(r.stderr)
    print('replayed %s (property %s, monitor %s)' % (path, body.get('property'), body.get('monitor')))
    return 0
