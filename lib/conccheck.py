"""Concurrent properties (C05 cross-thread, C11, C12, C19, ...): schedules of the real crate are explored by the controlled
runtime (bounded-preemption DFS / random), every distinct trace is validated by TLC against the L2 monitors of
spec/ConcProps.tla (ConcTrace), and the design-level L1 models (PlusCal / TLA+) are model-checked by TLC."""
import hashlib
import json
import os
import re
import shutil
import subprocess
import sys
import threading
import time

from seqcheck import V, SPEC, NPROC, ToolError, build_harness, tlc_cmd, term_ops

# ------------------------------------------------------------------------------------------ case catalogue
def T(op, a=0, f='', ins=(), b=0, items=(), scripts=()):
    return {'op': op, 'a': a, 'b': b, 'f': f, 'id': 0, 'in': list(ins), 'items': list(items), 'scripts': [list(s) for s in scripts]}


def S(j):
    return T('subject', j)


def E(j, k, v=0):
    return {'op': 'emit', 'j': j, 'k': k, 'v': v}


def items(j, n):
    return [E(j, 'n', 10 * j + i) for i in range(1, n + 1)]


SUB1 = [{'op': 'sub', 'u': 1}]


def case(name, root, threads, sbj=None, pre=None, post=None, tags=()):
    return {'name': name, 'root': root, 'sbj': sbj or ['plain', 'plain', 'plain'], 'pre': SUB1 if pre is None else pre, 'threads': threads, 'post': post or [], 'tags': list(tags)}


def catalogue_c19(tier):
    cs = []
    two = {'merge': T('merge', ins=[S(1), S(2)]), 'zip': T('zip', ins=[S(1), S(2)]), 'amb': T('amb', ins=[S(1), S(2)]),
           'flat_map': T('merge', ins=[T('flat_map', f='just', ins=[S(1)]), S(2)]),
           'take_until': T('take_until', ins=[S(1), S(2)]), 'skip_until': T('skip_until', ins=[S(1), S(2)]), 'sample': T('sample', ins=[S(1), S(2)]),
           'merge.map': T('map', 1, 'inc', ins=[T('merge', ins=[S(1), S(2)])])}
    for nm, root in two.items():
        cs.append(case('c19/%s/error-vs-item' % nm, root, [[E(1, 'e', 5)], items(2, 2)]))
        cs.append(case('c19/%s/error-vs-complete' % nm, root, [[E(1, 'n', 11), E(1, 'e', 5)], [E(2, 'n', 21), E(2, 'c')]]))
        cs.append(case('c19/%s/complete-vs-item' % nm, root, [[E(1, 'c')], items(2, 2) + [E(2, 'c')]]))
        if tier == 'thorough':
            cs.append(case('c19/%s/error-vs-error' % nm, root, [[E(1, 'e', 5)], [E(2, 'e', 6)]]))
            cs.append(case('c19/%s/item-complete-both' % nm, root, [items(1, 1) + [E(1, 'c')], items(2, 1) + [E(2, 'c')]]))
    for kind in ['plain', 'behavior', 'replay', 'async']:
        for pat, th in [('next-vs-complete', [items(1, 2), [E(1, 'c')]]), ('next-vs-error', [items(1, 2), [E(1, 'e', 5)]]), ('error-vs-complete', [[E(1, 'e', 5)], [E(1, 'c')]])]:
            cs.append(case('c19/subject-%s/%s' % (kind, pat), S(1), th, sbj=[kind]))
            if tier == 'thorough':
                cs.append(case('c19/subject-%s.map/%s' % (kind, pat), T('map', 1, 'inc', ins=[S(1)]), th, sbj=[kind]))
    return cs


def catalogue_c05(tier):
    cs = []
    roots = {'direct': S(1), 'map': T('map', 1, 'inc', ins=[S(1)]), 'take': T('take', 3, ins=[S(1)]), 'merge': T('merge', ins=[S(1), S(2)]),
             'scan': T('scan', ins=[S(1)]), 'filter.map': T('map', 1, 'inc', ins=[T('filter', 0, 'true', ins=[S(1)])])}
    for nm, root in roots.items():
        cs.append(case('c05/%s/unsub-vs-items' % nm, root, [items(1, 3), [{'op': 'unsub', 'u': 1}]]))
        if nm == 'merge' or tier == 'thorough':
            cs.append(case('c05/%s/unsub-vs-2-emitters' % nm, root, [items(1, 2), items(2 if nm == 'merge' else 1, 2), [{'op': 'unsub', 'u': 1}]]))
    # a source that emits from its own thread and holds on to the observer it was given (it never polls is_subscribed())
    ac = T('acold', 1, scripts=[[{'k': 'n', 'v': 10 + i} for i in range(1, 5)]])
    cs.append(case('c05/acold-direct/unsub-vs-items', ac, [[{'op': 'unsub', 'u': 1}]]))
    cs.append(case('c05/acold-map/unsub-vs-items', T('map', 0, 'inc', ins=[ac]), [[{'op': 'unsub', 'u': 1}]]))
    for kind in ['behavior', 'replay']:
        cs.append(case('c05/subject-%s/unsub-vs-items' % kind, S(1), [items(1, 3), [{'op': 'unsub', 'u': 1}]], sbj=[kind]))
    return cs


def catalogue_c11(tier):
    cs = []
    mod = lambda j: T('map', 10, 'mod', ins=[S(j)])
    n2 = 2
    for take in [0, 2]:
        wrap = (lambda r: T('take', take, ins=[r])) if take else (lambda r: r)
        tg = ['take:%d' % take] if take else []
        cs.append(case('c11/merge2%s' % ('.take' if take else ''), wrap(T('merge', ins=[S(1), S(2)])), [items(1, n2) + [E(1, 'c')], items(2, n2) + [E(2, 'c')]], tags=['srcs:2', 'merge'] + tg))
        cs.append(case('c11/zip2%s' % ('.take' if take else ''), wrap(T('zip', ins=[mod(1), mod(2)])), [items(1, n2) + [E(1, 'c')], items(2, n2) + [E(2, 'c')]], tags=['srcs:2', 'zip'] + tg))
        cs.append(case('c11/amb2%s' % ('.take' if take else ''), wrap(T('amb', ins=[S(1), S(2)])), [items(1, n2) + [E(1, 'c')], items(2, n2) + [E(2, 'c')]], tags=['srcs:2', 'amb'] + tg))
        cs.append(case('c11/flat_map%s' % ('.take' if take else ''), wrap(T('merge', ins=[T('flat_map', f='just', ins=[S(1)]), T('flat_map', f='just', ins=[S(2)])])),
                       [items(1, n2) + [E(1, 'c')], items(2, n2) + [E(2, 'c')]], tags=['srcs:2', 'merge'] + tg))
    ac = lambda a, n: T('acold', a, scripts=[[{'k': 'n', 'v': 10 * a + i} for i in range(1, n + 1)] + [{'k': 'c', 'v': 0}]])
    cs.append(case('c11/concat-acold', T('concat', ins=[ac(1, 2), ac(2, 2)]), [], tags=['srcs:2', 'merge']))
    cs.append(case('c11/merge-acold', T('merge', ins=[ac(1, 2), ac(2, 2)]), [], tags=['srcs:2', 'merge']))
    cs.append(case('c11/flat_map-acold', T('flat_map', f='acold', ins=[T('from_iter', items=[1, 2])]), [], tags=['srcs:2', 'merge']))
    # the source of flat_map is fed by several threads at once: the upstream observers of the inner observables are created concurrently
    for nthreads in ([2] if tier == 'quick' else [2, 3]):
        c = case('c11/flat_map-acold/%d-feeding-threads' % nthreads, T('flat_map', f='acold', ins=[S(1)]), [[dict(E(1, 'n', 3 + k), p=5)] for k in range(nthreads)] + [[SL(200), dict(E(1, 'c'), p=5)]], tags=['bag'])
        c['expect'] = [['n', 10 * (3 + k) + 1] for k in range(nthreads)]
        cs.append(c)
    if tier == 'thorough':
        cs.append(case('c11/merge3', T('merge', ins=[S(1), S(2), S(3)]), [items(1, 2) + [E(1, 'c')], items(2, 1) + [E(2, 'c')], items(3, 1) + [E(3, 'c')]], tags=['srcs:3', 'merge']))
        cs.append(case('c11/zip3', T('zip', ins=[mod(1), mod(2), mod(3)]), [items(1, 2) + [E(1, 'c')], items(2, 1) + [E(2, 'c')], items(3, 1) + [E(3, 'c')]], tags=['srcs:3', 'zip']))
        cs.append(case('c11/merge2-long', T('merge', ins=[S(1), S(2)]), [items(1, 3) + [E(1, 'c')], items(2, 3) + [E(2, 'c')]], tags=['srcs:2', 'merge']))
    return cs


def catalogue_c12(tier):
    cs = []
    P2 = [dict(E(1, 'n', 21), p=2), dict(E(1, 'n', 22), p=2)]      # second producer of the same subject
    for kind in ['plain', 'behavior', 'replay']:
        tg = ['subject:' + kind]
        cs.append(case('c12/%s/2producers-stable' % kind, S(1), [items(1, 2), P2], sbj=[kind], tags=tg + ['producers:2']))
        cs.append(case('c12/%s/producer-vs-latesub' % kind, S(1), [items(1, 3), [{'op': 'sub', 'u': 2}]], sbj=[kind], tags=tg + ['producers:1', 'latesub:2']))
        cs.append(case('c12/%s/producer-vs-unsub' % kind, S(1), [items(1, 3), [{'op': 'unsub', 'u': 1}]], sbj=[kind], tags=tg + ['producers:1', 'unsub:1']))
        cs.append(case('c12/%s/sub-vs-unsub-then-items' % kind, S(1), [[{'op': 'sub', 'u': 2}], [{'op': 'unsub', 'u': 1}]], sbj=[kind], post=items(1, 2), tags=tg + ['producers:1', 'latesub:2', 'unsub:1']))
        if tier == 'thorough':
            cs.append(case('c12/%s/2producers-latesub' % kind, S(1), [items(1, 2), P2, [{'op': 'sub', 'u': 2}]], sbj=[kind], tags=tg + ['producers:2', 'latesub:2']))
            cs.append(case('c12/%s/producer-latesub-unsub' % kind, S(1), [items(1, 3), [{'op': 'sub', 'u': 2}], [{'op': 'unsub', 'u': 1}]], sbj=[kind], tags=tg + ['producers:1', 'latesub:2', 'unsub:1']))
    return cs


def qcase(name, threads, kind='queue', aborting=(), posting=()):
    c = case('c08/' + name, T('never'), threads, pre=[], tags=[kind])
    c.update({'kind': kind, 'aborting': list(aborting), 'posting': list(posting)})
    return c


def P(task):
    return {'op': 'post', 'task': task}


AB = {'op': 'abort'}


def catalogue_c08(tier):
    cs = [qcase('1client-3posts', [[P(11), P(12), P(13)]]),
          qcase('2clients', [[P(11), P(12)], [P(21), P(22)]]),
          qcase('client-vs-abort', [[P(11), P(12), P(13)], [AB]]),
          qcase('post-abort-post', [[P(11), AB, P(13)]]),
          qcase('abort-then-post', [[AB], [P(21)]]),
          qcase('abort-inside-task', [[P(11), P(12)], [P(21)]], aborting=[11]),
          qcase('post-inside-task', [[P(11), P(12)]], posting=[11]),
          qcase('2clients-vs-abort', [[P(11), P(12)], [P(21)], [AB]]),
          qcase('default-scheduler', [[P(11), P(12)], [P(21)]], kind='default_queue'),
          qcase('1client-burst6', [[P(11), P(12), P(13), P(14), P(15), P(16)]])]
    if tier == 'thorough':
        cs += [qcase('3clients', [[P(11), P(12)], [P(21), P(22)], [P(31)]]),
               qcase('2aborters', [[P(11), P(12)], [AB], [AB]]),
               qcase('abort-inside-and-outside', [[P(11), P(12)], [AB]], aborting=[12]),
               qcase('post-inside-vs-abort', [[P(11)], [AB]], posting=[11])]
    return cs


def SL(ms):
    return {'op': 'sleep', 'ms': ms}


UNSUB1 = {'op': 'unsub', 'u': 1}


def catalogue_c18(tier):
    cs = []
    for nm, script in [('2items-complete', items(1, 2) + [E(1, 'c')]), ('empty-complete', [E(1, 'c')]), ('item-error', items(1, 1) + [E(1, 'e', 5)]), ('3items-complete', items(1, 3) + [E(1, 'c')])]:
        cs.append(case('c18/' + nm, S(1), [[{'op': 'tovec_wait'}], script], pre=[{'op': 'tovec_start'}], tags=['tovec']))
    cs.append(case('c18/fresh-wakers', S(1), [[{'op': 'tovec_wait2'}], items(1, 2) + [E(1, 'c')]], pre=[{'op': 'tovec_start'}], tags=['tovec']))
    cs.append(case('c18/fresh-wakers-error', S(1), [[{'op': 'tovec_wait2'}], items(1, 1) + [E(1, 'e', 5)]], pre=[{'op': 'tovec_start'}], tags=['tovec']))
    cs.append(case('c18/through-map', T('map', 0, 'inc', ins=[S(1)]), [[{'op': 'tovec_wait'}], items(1, 2) + [E(1, 'c')]], pre=[{'op': 'tovec_start'}], tags=['tovec']))
    return cs


def catalogue_c09(tier):
    cs = []
    oo = lambda x: T('observe_on', ins=[x])
    roots = {'direct': oo(S(1)), 'below-map': T('map', 0, 'inc', ins=[oo(S(1))]), 'above-map': oo(T('map', 0, 'inc', ins=[S(1)])), 'stacked': oo(oo(S(1)))}
    if tier == 'thorough':
        roots['mid-chain'] = T('filter', 0, 'true', ins=[oo(T('map', 0, 'inc', ins=[S(1)]))])
    for nm, root in roots.items():
        cs.append(case('c09/observe_on-%s/complete' % nm, root, [items(1, 2) + [E(1, 'c')]], tags=['observe_on']))
        cs.append(case('c09/observe_on-%s/error' % nm, root, [items(1, 1) + [E(1, 'e', 5)]], tags=['observe_on']))
        if nm in ('direct', 'stacked') or tier == 'thorough':
            cs.append(case('c09/observe_on-%s/silent' % nm, root, [items(1, 2)], tags=['observe_on']))
            cs.append(case('c09/observe_on-%s/unsub' % nm, root, [items(1, 3), [UNSUB1]], tags=['observe_on']))
    # the emitter runs far ahead of the worker: a burst of 6 items and the terminal
    cs.append(case('c09/observe_on-direct/burst6-complete', oo(S(1)), [items(1, 6) + [E(1, 'c')]], tags=['observe_on']))
    cs.append(case('c09/observe_on-stacked/burst6-error', oo(oo(S(1))), [items(1, 6) + [E(1, 'e', 5)]], tags=['observe_on']))
    # a source that stays silent for a long (virtual) time between two events, and the same observable subscribed twice
    cs.append(case('c09/observe_on-direct/long-gap', oo(S(1)), [[E(1, 'n', 11), SL(2500), E(1, 'n', 12), SL(4000), E(1, 'c')]], tags=['observe_on']))
    # a feedback consumer: the callback for item 11 (on the worker) pushes 21 into the source while the emitter's later items may
    # still be queued - the fed-back item takes its turn in the queue, no callback runs inside another
    cs.append(dict(case('c09/observe_on-direct/feedback', oo(S(1)), [items(1, 3) + [SL(50)]], tags=['observe_on', 'feedback']), fb_item=11, fb_src=1, fb_v=21))
    cs.append(dict(case('c09/observe_on-below-map/feedback', T('map', 0, 'inc', ins=[oo(S(1))]), [items(1, 2) + [SL(50)]], tags=['observe_on', 'feedback']), fb_item=11, fb_src=1, fb_v=21))
    cold3 = oo(T('from_iter', items=[1, 2, 3]))
    cs.append(case('c09/observe_on-cold/twice', cold3, [[SL(100), {'op': 'sub', 'u': 2}, SL(100)]], tags=['observe_on', 'cold3']))
    so = T('subscribe_on', ins=[T('from_iter', items=[1, 2, 3])])
    cs.append(case('c09/subscribe_on/cold', so, [], tags=['subscribe_on', 'cold3']))
    cs.append(case('c09/subscribe_on/cold-map', T('map', 0, 'inc', ins=[so]), [], tags=['subscribe_on', 'cold3']))
    cs.append(case('c09/subscribe_on/stacked', T('subscribe_on', ins=[so]), [], tags=['subscribe_on', 'cold3']))
    return cs


def catalogue_c04(tier):
    """C04 across a thread hand-over: items, then an error, through observe_on / subscribe_on / delay; retry and
    on_error_resume_next around a source whose failing attempt runs on another thread (k-th subscription differs).
    (This crate counts attempts: retry(2) = the first subscription plus one retry.)"""
    cs = []
    oo = lambda x: T('observe_on', ins=[x])
    inc = lambda x: T('map', 1, 'inc', ins=[x])

    def ex(c, expect):
        c['expect'] = [[k, v] for k, v in expect]
        return c
    roots = {'direct': (oo(S(1)), 0), 'below-map': (inc(oo(S(1))), 1), 'above-map': (oo(inc(S(1))), 1), 'stacked': (oo(oo(S(1))), 0)}
    if tier == 'thorough':
        roots['mid-chain'] = (T('filter', 0, 'true', ins=[oo(inc(S(1)))]), 1)
        roots['delay-above'] = (T('delay', 30, ins=[oo(S(1))]), 0)
    for nm, (root, d) in roots.items():
        cs.append(ex(case('c04/observe_on-%s/items-error' % nm, root, [items(1, 2) + [E(1, 'e', 5)]], tags=['errpass']), [('n', 11 + d), ('n', 12 + d), ('e', 5)]))
        cs.append(ex(case('c04/observe_on-%s/error-only' % nm, root, [[E(1, 'e', 6)]], tags=['errpass']), [('e', 6)]))
    cs.append(ex(case('c04/delay/items-error', T('delay', 50, ins=[S(1)]), [items(1, 2) + [E(1, 'e', 5)]], tags=['errpass']), [('n', 11), ('n', 12), ('e', 5)]))
    n = lambda v: {'k': 'n', 'v': v}
    e7 = {'k': 'e', 'v': 7}
    cc = {'k': 'c', 'v': 0}
    pause = {'k': 's', 'v': 20}
    fail_then_ok = [[n(1), e7], [n(2), cc]]
    cold = lambda scripts: T('cold', 3, scripts=scripts)
    acold = lambda scripts: T('acold', 3, scripts=scripts)
    so = lambda x: T('subscribe_on', ins=[x])
    cs.append(ex(case('c04/subscribe_on/items-error', so(cold([[n(1), n(2), e7]])), [], tags=['errpass']), [('n', 1), ('n', 2), ('e', 7)]))
    cs.append(ex(case('c04/observe_on-cold/items-error', oo(cold([[n(1), n(2), e7]])), [], tags=['errpass']), [('n', 1), ('n', 2), ('e', 7)]))
    cs.append(ex(case('c04/retry-once-over-subscribe_on', T('retry', 2, ins=[so(cold(fail_then_ok))]), [], tags=['errpass']), [('n', 1), ('n', 2), ('c', 0)]))
    cs.append(ex(case('c04/retry-once-over-threaded-source', T('retry', 2, ins=[acold([[n(1), pause, e7], [n(2), cc]])]), [], tags=['errpass']), [('n', 1), ('n', 2), ('c', 0)]))
    cs.append(ex(case('c04/retry-once-exhausted-threaded-source', T('retry', 2, ins=[acold([[n(1), e7], [n(2), {'k': 'e', 'v': 8}]])]), [], tags=['errpass']), [('n', 1), ('n', 2), ('e', 8)]))
    cs.append(ex(case('c04/observe_on-over-retry-once', oo(T('retry', 2, ins=[cold(fail_then_ok)])), [], tags=['errpass']), [('n', 1), ('n', 2), ('c', 0)]))
    cs.append(ex(case('c04/resume-just-over-observe_on', T('on_error_resume_next', 0, 'just', ins=[oo(S(1))]), [items(1, 1) + [E(1, 'e', 5)]], tags=['errpass']), [('n', 11), ('n', 9), ('c', 0)]))
    cs.append(ex(case('c04/resume-error-over-threaded-source', T('on_error_resume_next', 0, 'error', ins=[acold([[n(1), e7]])]), [], tags=['errpass']), [('n', 1), ('e', 8)]))
    # an input fails while another thread is delivering items of another input: the error still arrives, once, last
    two = {'merge': T('merge', ins=[S(1), S(2)]), 'zip': T('zip', ins=[S(1), S(2)]), 'combine_latest': T('combine_latest', ins=[S(1), S(2)]),
           'flat_map': T('merge', ins=[T('flat_map', f='just', ins=[S(1)]), S(2)]), 'take_until': T('take_until', ins=[S(1), S(2)]), 'sample': T('sample', ins=[S(1), S(2)])}
    for nm, root in two.items():
        cs.append(ex(case('c04/%s/error-while-other-input-emits' % nm, root, [items(1, 3), [E(2, 'e', 5)]], tags=['ends-with']), [('e', 5)]))
    if tier == 'thorough':
        cs.append(ex(case('c04/retry_when-payload-over-threaded-source', T('retry_when', 7, 'payload', ins=[acold([[n(1), e7], [n(2), {'k': 'e', 'v': 8}]])]), [], tags=['errpass']), [('n', 1), ('n', 2), ('e', 8)]))
        cs.append(ex(case('c04/retry-twice-over-observe_on-cold', T('retry', 3, ins=[oo(cold([[n(1), e7], [n(2), e7], [n(3), cc]]))]), [], tags=['errpass']), [('n', 1), ('n', 2), ('n', 3), ('c', 0)]))
        cs.append(ex(case('c04/materialize-over-observe_on', T('dematerialize', ins=[T('materialize', ins=[oo(S(1))])]), [items(1, 1) + [E(1, 'e', 5)]], tags=['errpass']), [('n', 11), ('e', 5)]))
    return cs


def timed(c, period):
    c['period'] = period
    return c


def catalogue_c15(tier):
    W = ['workers']
    iv = lambda d: T('interval', d)
    cs = [timed(case('c15/interval-take2', T('take', 2, ins=[iv(100)]), [[SL(600)]], tags=W), 100),
          timed(case('c15/interval-unsub', iv(100), [[SL(250), UNSUB1, SL(400)]], tags=W), 100),
          timed(case('c15/interval-first', T('first', ins=[iv(100)]), [[SL(500)]], tags=W), 100),
          timed(case('c15/timer', T('timer', 100, b=7), [[SL(400)]], tags=W), 100),
          timed(case('c15/timer-unsub-early', T('timer', 100, b=7), [[SL(50), UNSUB1, SL(400)]], tags=W), 100),
          timed(case('c15/observe_on-complete', T('observe_on', ins=[S(1)]), [items(1, 2) + [E(1, 'c')]], tags=W), 100),
          timed(case('c15/observe_on-error', T('observe_on', ins=[S(1)]), [items(1, 1) + [E(1, 'e', 5)]], tags=W), 100),
          timed(case('c15/observe_on-unsub', T('observe_on', ins=[S(1)]), [items(1, 2) + [UNSUB1]], tags=W), 100),
          timed(case('c15/observe_on-take1', T('take', 1, ins=[T('observe_on', ins=[S(1)])]), [items(1, 2)], tags=W), 100),
          timed(case('c15/interval_sync-take2-observe_on', T('observe_on', ins=[T('take', 2, ins=[T('interval_sync', 20)])]), [[SL(300)]], tags=W), 100),
          timed(case('c15/observe_on-idle-unsub', T('observe_on', ins=[S(1)]), [[E(1, 'n', 11), SL(50), UNSUB1, SL(300)]], tags=W), 100),
          timed(case('c15/subscribe_on-cold', T('subscribe_on', ins=[T('from_iter', items=[1, 2, 3])]), [[SL(100)]], tags=W), 100),
          timed(case('c15/subscribe_on-never-unsub', T('subscribe_on', ins=[T('never')]), [[SL(10), UNSUB1, SL(300)]], tags=W), 100),
          timed(case('c15/subscribe_on-never-unsub-at-once', T('subscribe_on', ins=[T('never')]), [[UNSUB1, SL(300)]], tags=W), 100),
          timed(case('c15/subscribe_on-silent-subject-take1-of-prefix', T('take', 1, ins=[T('start_with', items=[8], ins=[T('subscribe_on', ins=[S(1)])])]), [[SL(300)]], tags=W), 100),
          timed(case('c15/timer-unsub-at-once', T('timer', 100, b=7), [[UNSUB1, SL(400)]], tags=W), 100),
          timed(case('c15/interval-unsub-at-once', iv(100), [[UNSUB1, SL(400)]], tags=W), 100),
          timed(case('c15/observe_on-unsub-at-once', T('observe_on', ins=[S(1)]), [[UNSUB1, SL(300)]], tags=W), 100),
          timed(case('c15/timer-1500-unsub-early', T('timer', 1500, b=7), [[SL(50), UNSUB1, SL(4000)]], tags=W), 1500),
          timed(case('c15/interval-1500-unsub', T('interval', 1500), [[SL(2000), UNSUB1, SL(4000)]], tags=W), 1500),
          timed(case('c15/interval-1500-take1', T('take', 1, ins=[T('interval', 1500)]), [[SL(5000)]], tags=W), 1500),
          timed(case('c15/debounce-complete', T('debounce', 100, ins=[S(1)]), [[E(1, 'n', 11), SL(150), E(1, 'c'), SL(400)]], tags=W), 100),
          timed(case('c15/debounce-unsub', T('debounce', 100, ins=[S(1)]), [[E(1, 'n', 11), SL(150), UNSUB1, SL(400)]], tags=W), 100),
          timed(dict(case('c15/debounce-feedback-unsub', T('debounce', 100, ins=[S(1)]), [[E(1, 'n', 11), SL(350), UNSUB1, SL(400)]], tags=W), fb_item=11, fb_src=1, fb_v=12), 100),
          timed(dict(case('c15/observe_on-feedback-unsub', T('observe_on', ins=[S(1)]), [[E(1, 'n', 11), SL(50), UNSUB1, SL(300)]], tags=W), fb_item=11, fb_src=1, fb_v=21), 100),
          # a stream that is over before a later input is subscribed: take_until's trigger fires while it is being subscribed, the
          # thread-creating source is then never run (no worker is started, so none can be left behind)
          timed(case('c15/observe_on-under-take_until-just', T('take_until', ins=[T('observe_on', ins=[S(1)]), T('just', 0)]), [[SL(300)]], tags=W), 100),
          timed(case('c15/subscribe_on-under-take_until-just', T('take_until', ins=[T('subscribe_on', ins=[T('from_iter', items=[1, 2, 3])]), T('just', 0)]), [[SL(300)]], tags=W), 100),
          timed(case('c15/debounce-under-take_until-just', T('take_until', ins=[T('debounce', 100, ins=[S(1)]), T('just', 0)]), [[SL(400)]], tags=W), 100),
          timed(case('c15/interval-observe_on-under-take_until-just', T('take_until', ins=[T('observe_on', ins=[iv(100)]), T('just', 0)]), [[SL(400)]], tags=W), 100),
          timed(case('c15/timeout-complete', T('timeout', 100, ins=[S(1)]), [[E(1, 'n', 11), SL(20), E(1, 'c'), SL(500)]], tags=W), 100),
          timed(case('c15/timeout-unsub', T('timeout', 100, ins=[S(1)]), [[E(1, 'n', 11), SL(20), UNSUB1, SL(500)]], tags=W), 100),
          timed(case('c15/timeout-take2-ends-during-delivery', T('take', 2, ins=[T('timeout', 100, ins=[S(1)])]), [[E(1, 'n', 11), SL(20), E(1, 'n', 12), SL(500)]], tags=W), 100),
          timed(case('c15/timeout-first-ends-during-delivery', T('first', ins=[T('timeout', 100, ins=[S(1)])]), [[E(1, 'n', 11), SL(500)]], tags=W), 100),
          timed(case('c15/timeout-fires', T('timeout', 100, ins=[S(1)]), [[E(1, 'n', 11), SL(500)]], tags=W), 100),
          timed(case('c15/interval-take_until-timer', T('take_until', ins=[iv(100), T('timer', 250, b=0)]), [[SL(800)]], tags=W), 250),
          timed(case('c15/interval-amb-timer', T('amb', ins=[iv(100), T('timer', 250, b=0)]), [[SL(450), UNSUB1, SL(500)]], tags=W), 250)]
    if tier == 'thorough':
        cs += [timed(case('c15/interval-x3', T('take', 1, ins=[iv(100)]), [[SL(300), {'op': 'sub', 'u': 2}, SL(300), {'op': 'sub', 'u': 3}, SL(400)]], tags=['workers-repeat']), 100),
               timed(case('c15/observe_on-stacked-complete', T('observe_on', ins=[T('observe_on', ins=[S(1)])]), [items(1, 2) + [E(1, 'c')]], tags=W), 100),
               timed(case('c15/retry-interval', T('retry', 2, ins=[T('take', 1, ins=[iv(100)])]), [[SL(500)]], tags=W), 100)]
    return cs


def catalogue_c16(tier):
    iv = lambda d: T('interval', d)
    cs = []
    # (virtual time makes long periods free: 1100 ms covers code that treats periods above one second differently)
    for d in ([100, 35, 1100] if tier == 'quick' else [100, 150, 35, 7, 1100, 2500]):
        cs += [timed(case('c16/interval-%d' % d, iv(d), [[SL(3 * d + d // 2), UNSUB1, SL(3 * d)]], tags=['interval']), d),
               timed(case('c16/timer-%d' % d, T('timer', d, b=7), [[SL(3 * d)]], tags=['timer']), d),
               timed(case('c16/delay-%d' % d, T('delay', d, ins=[S(1)]), [[E(1, 'n', 11), SL(40), E(1, 'n', 12), E(1, 'c')]], tags=['delay']), d),
               timed(case('c16/timeout-%d-fires-after-2nd' % d, T('timeout', d, ins=[S(1)]), [[E(1, 'n', 11), SL(40), E(1, 'n', 12), SL(260)]], tags=['timeout']), d),
               timed(case('c16/timeout-%d-quiet' % d, T('timeout', d, ins=[S(1)]), [[E(1, 'n', 11), SL(40), E(1, 'n', 12), SL(40), E(1, 'c'), SL(300)]], tags=['timeout']), d),
               timed(case('c16/timeout-%d-nothing-before-first' % d, T('timeout', d, ins=[S(1)]), [[SL(260), E(1, 'n', 11), SL(40), E(1, 'c'), SL(300)]], tags=['timeout']), d),
               timed(case('c16/timeout-%d-gap-after-first' % d, T('timeout', d, ins=[S(1)]), [[E(1, 'n', 11), SL(260), E(1, 'n', 12)]], tags=['timeout']), d),
               timed(dict(case('c16/timeout-%d-slow-consumer' % d, T('timeout', 4 * d, ins=[S(1)]), [[E(1, 'n', 11), SL(150), E(1, 'n', 12), E(1, 'c'), SL(3000)]], tags=['timeout-slow']), slow_item=12, slow_ms=8 * d), 4 * d),
               timed(case('c16/debounce-%d' % d, T('debounce', d, ins=[S(1)]), [[E(1, 'n', 11), SL(40), E(1, 'n', 12), SL(260), E(1, 'n', 13), SL(110), E(1, 'c'), SL(300)]], tags=['subset']), d),
               timed(dict(case('c16/debounce-%d-complete-while-pending-slow-consumer' % d, T('debounce', d, ins=[S(1)]), [[E(1, 'n', 11), SL(d + 20), E(1, 'n', 12), E(1, 'c'), SL(8 * d)]], tags=['subset']), slow_item=12, slow_ms=3 * d), d),
               timed(dict(case('c16/debounce-%d-slow-consumer' % d, T('debounce', d, ins=[S(1)]), [[E(1, 'n', 11), SL(d + 20), E(1, 'n', 12), SL(d + 20), E(1, 'n', 13), E(1, 'c'), SL(8 * d)]], tags=['subset']), slow_item=11, slow_ms=3 * d), d),
               timed(case('c16/sample-%d' % d, T('sample', ins=[S(1), S(2)]), [[E(1, 'n', 11), SL(40), E(1, 'n', 12), SL(90), E(1, 'n', 13), SL(110), E(1, 'c')], [SL(90), E(2, 'n', 0), SL(110), E(2, 'n', 0), SL(40), E(2, 'n', 0)]], tags=['subset']), d)]
        if d == 100 or tier != 'quick':
            # the same sample / debounce observable subscribed again after the first subscriber left with an item still pending:
            # the second subscriber's ticks deliver only what its own subscription received
            SUB2, U1 = {'op': 'sub', 'u': 2}, {'op': 'unsub', 'u': 1}
            # feedback consumers: the callback fires sample's trigger again / pushes debounce's source again from inside the delivery
            cs += [timed(dict(case('c16/sample-%d-feedback' % d, T('sample', ins=[S(1), S(2)]), [[E(1, 'n', 11), E(2, 'n', 0), E(1, 'n', 12), E(2, 'n', 0), E(2, 'n', 0)]], tags=['subset']), fb_item=11, fb_src=2, fb_v=0), d),
                   timed(dict(case('c16/debounce-%d-feedback' % d, T('debounce', d, ins=[S(1)]), [[E(1, 'n', 11), SL(3 * d + d // 2), {'op': 'unsub', 'u': 1}, SL(2 * d)]], tags=['subset']), fb_item=11, fb_src=1, fb_v=12), d)]
            # delay fed from two threads: each item is handed on d after IT was received (the sleeps are independent)
            cs += [timed(case('c16/delay-%d-two-threads' % d, T('delay', d, ins=[S(1)]), [[E(1, 'n', 11)], [SL(d // 4), E(1, 'n', 21)]], tags=['delay']), d)]
            cs += [timed(case('c16/sample-%d-resubscribed' % d, T('sample', ins=[S(1), S(2)]), [[E(1, 'n', 11), U1, SUB2, E(2, 'n', 0), E(1, 'n', 12), E(2, 'n', 0), E(2, 'n', 0)]], tags=['subset', 'resub']), d),
                   timed(case('c16/debounce-%d-resubscribed' % d, T('debounce', d, ins=[S(1)]), [[E(1, 'n', 11), U1, SUB2, SL(d + d // 2), E(1, 'n', 12), SL(2 * d), {'op': 'unsub', 'u': 2}, SL(2 * d)]], tags=['subset', 'resub']), d)]
    return cs


def catalogue_c06(tier):
    """C06 across threads: the sibling inputs of a failed attempt are released BEFORE the replacement source of
    on_error_resume_next is subscribed (a teardown deferred until the nested subscription returns leaves them subscribed meanwhile)"""
    cs = []
    for nm, inner in [('zip', T('zip', ins=[S(1), S(2)])), ('merge', T('merge', ins=[S(1), S(2)])), ('combine_latest', T('combine_latest', ins=[S(1), S(2)]))]:
        root = T('on_error_resume_next', 0, 'slow', ins=[inner])
        cs.append(case('c06/resume-slow-over-%s/sibling-emits-meanwhile' % nm, root, [[E(1, 'e', 5)], [SL(60), E(2, 'n', 21), SL(400)]], tags=['released-before-resume', 'count']))
    # a subscriber that ends by itself on an item another thread emits WHILE it is still subscribing must not stay registered
    for kind in ['plain', 'behavior', 'replay']:
        for nm, root in [('take1', T('take', 1, ins=[S(1)])), ('first', T('first', ins=[S(1)])), ('take_while', T('take_while', 0, 'false', ins=[S(1)]))]:
            cs.append(case('c06/%s-subject/%s-joiner-vs-producer' % (kind, nm), root, [[{'op': 'sub', 'u': 1}], items(1, 2)], pre=[], post=[E(1, 'n', 99)], sbj=[kind], tags=['no-observer-left', 'count']))
    return cs


def catalogue_c14(tier):
    """C14 for the time-driven sources / operators: the same observable value subscribed twice (at different times for the cold
    sources); each subscriber is judged by the timed definition of C16 for its own subscription"""
    U2 = {'op': 'unsub', 'u': 2}
    SUB2 = {'op': 'sub', 'u': 2}
    cs = []
    for d in ([100] if tier == 'quick' else [100, 150]):
        cs += [timed(case('c14/interval-%d-twice' % d, T('interval', d), [[SL(d + d // 2), SUB2, SL(2 * d + d // 4), UNSUB1, SL(d + 20), U2, SL(3 * d)]], tags=['interval', 'twice']), d),
               timed(case('c14/timer-%d-twice' % d, T('timer', d, b=7), [[SL(d // 2), SUB2, SL(3 * d)]], tags=['timer', 'twice']), d),
               timed(case('c14/timer-%d-twice-first-leaves' % d, T('timer', d, b=7), [[SL(d // 2), SUB2, SL(d // 4), UNSUB1, SL(3 * d)]], tags=['timer', 'twice']), d),
               timed(case('c14/timeout-%d-twice-fires' % d, T('timeout', d, ins=[S(1)]), [[E(1, 'n', 11), SL(40), E(1, 'n', 12), SL(260)]], pre=[SUB1[0], SUB2], tags=['timeout', 'twice']), d),
               timed(case('c14/timeout-%d-twice-quiet' % d, T('timeout', d, ins=[S(1)]), [[E(1, 'n', 11), SL(40), E(1, 'n', 12), SL(40), E(1, 'c'), SL(300)]], pre=[SUB1[0], SUB2], tags=['timeout', 'twice']), d),
               timed(case('c14/timeout-%d-twice-second-joins-late' % d, T('timeout', d, ins=[S(1)]), [[E(1, 'n', 11), SL(40), SUB2, SL(20), E(1, 'n', 12), SL(260)]], tags=['timeout-slow', 'twice']), d)]
    # the thread-hopping operators over a cold source, the same observable value subscribed twice, one after the other: each
    # subscription has its own worker and gets everything
    cold = T('from_iter', items=[1, 2, 3])
    for nm, root in [('observe_on', T('observe_on', ins=[cold])), ('subscribe_on', T('subscribe_on', ins=[cold])), ('observe_on-map', T('map', 0, 'inc', ins=[T('observe_on', ins=[T('map', 0, 'inc', ins=[cold])])]))]:
        cs.append(timed(case('c14/%s-cold/twice' % nm, root, [[SL(100), SUB2, SL(100)]], tags=['twice-cold3']), 100))
    return cs


def catalogue_c07(tier):
    """multi-thread part of C07: every construct that owns shared state x thread patterns; the monitor is the runtime's verdict
    (every call returned, every thread finished or is legitimately parked on a scheduler's condition variable)"""
    cs = []
    def pick(cat, n):
        return [dict(c, name='c07/' + c['name']) for c in cat[:n]]
    cs += pick(catalogue_c19(tier), 12 if tier == 'quick' else 60)
    cs += pick(catalogue_c11(tier), 6 if tier == 'quick' else 20)
    cs += pick(catalogue_c12(tier), 6 if tier == 'quick' else 20)
    cs += pick(catalogue_c08(tier), 5 if tier == 'quick' else 20)
    cs += pick(catalogue_c09(tier), 5 if tier == 'quick' else 20)
    cs += pick(catalogue_c05(tier), 4 if tier == 'quick' else 20)
    U2 = {'op': 'unsub', 'u': 2}
    SUB2 = {'op': 'sub', 'u': 2}
    # four threads: two emitters, a subscriber, an unsubscriber on one shared-state operator
    ops = {'scan': T('scan', ins=[T('merge', ins=[S(1), S(2)])]), 'take': T('take', 3, ins=[T('merge', ins=[S(1), S(2)])]), 'zip': T('zip', ins=[S(1), S(2)]),
           'buffer': T('buffer_with_count', 2, ins=[T('merge', ins=[S(1), S(2)])]), 'distinct': T('distinct_until_changed', ins=[T('merge', ins=[S(1), S(2)])]),
           'take_last': T('take_last', 2, ins=[T('merge', ins=[S(1), S(2)])]), 'group_by': T('flat_map', f='obs', ins=[T('group_by', ins=[T('merge', ins=[S(1), S(2)])])]),
           'window': T('flat_map', f='obs', ins=[T('window_with_count', 2, ins=[T('merge', ins=[S(1), S(2)])])]), 'concat': T('concat', ins=[S(1), S(2)]),
           'amb': T('amb', ins=[S(1), S(2)]), 'flat_map': T('flat_map', f='just', ins=[T('merge', ins=[S(1), S(2)])]), 'skip_until': T('skip_until', ins=[S(1), S(2)]),
           'sample': T('sample', ins=[S(1), S(2)]), 'retry': T('retry', 2, ins=[T('merge', ins=[S(1), S(2)])]), 'switch': T('switch_on_next', ins=[S(1), S(2)])}
    for nm, root in ops.items():
        cs.append(case('c07/4threads/%s' % nm, root, [items(1, 2) + [E(1, 'c')], items(2, 1) + [E(2, 'e', 5)], [SUB2], [{'op': 'unsub', 'u': 1}]]))
    # ref_count / replay over a SYNCHRONOUS source: the first subscription (which runs the source) on one thread, the last subscriber
    # taken away through take_until's trigger on another
    for kind in ['ref_count', 'replay']:
        c = case('c07/%s-sync-source/last-leaver-on-other-thread' % kind, T('take_until', ins=[T('conn', 1), S(2)]), [[{'op': 'sub', 'u': 1}], [E(2, 'n', 0)]], pre=[])
        c['conn'] = [{'kind': kind, 'term': T('from_iter', items=[1, 2, 3, 4])}]
        cs.append(c)
        c = case('c07/%s-sync-source/two-subscribing-threads' % kind, T('take', 2, ins=[T('conn', 1)]), [[{'op': 'sub', 'u': 1}], [SUB2], [E(2, 'n', 0)]], pre=[])
        c['conn'] = [{'kind': kind, 'term': T('from_iter', items=[1, 2, 3, 4])}]
        cs.append(c)
    # connectables and subjects: subscribers coming and going while the source emits
    for kind in ['plain', 'behavior', 'replay', 'async']:
        cs.append(case('c07/subject-%s/sub-unsub-next-complete' % kind, S(1), [items(1, 2), [SUB2, U2], [{'op': 'unsub', 'u': 1}], [E(1, 'c')]], sbj=[kind]))
    return cs


def catalogue_c13(tier):
    """connectables over a source that emits from its own thread (the sequential part of C13 cannot express these)"""
    NS = lambda v: {'k': 'n', 'v': v}
    PA = lambda ms: {'k': 's', 'v': ms}
    slow = T('acold', 1, b=150, scripts=[[NS(11), PA(50), NS(12), PA(50), NS(13), PA(50), NS(14), PA(50), NS(15), PA(50), NS(16), PA(50), NS(17)]])
    later = T('acold', 1, scripts=[[PA(50), NS(11), NS(12), NS(13)]])
    cs = []
    for kind in ['ref_count', 'replay']:
        c = timed(case('c13/%s-slow-connect/take1' % kind, T('take', 1, ins=[T('conn', 1)]), [[SL(600)]], tags=['conn-stop']), 200)
        c['conn'] = [{'kind': kind, 'term': slow}]
        cs.append(c)
        c = timed(case('c13/%s-slow-connect/unsub' % kind, T('conn', 1), [[SL(20), UNSUB1, SL(600)]], tags=['conn-stop']), 200)
        c['conn'] = [{'kind': kind, 'term': slow}]
        cs.append(c)
    # the last subscriber leaves while a new one joins, on two threads; afterwards the hot source emits
    c = case('c13/ref_count-hot/leaver-vs-joiner', T('conn', 1), [[UNSUB1], [{'op': 'sub', 'u': 2}]], post=[E(1, 'n', 11)], tags=['joiner-gets-items'])
    c['conn'] = [{'kind': 'ref_count', 'term': S(1)}]
    cs.append(c)
    c = case('c13/replay-acold/leave-and-rejoin', T('conn', 1), [[SL(200), UNSUB1, SL(50), {'op': 'sub', 'u': 2}, SL(300)]], tags=['replay-once'])
    c['conn'] = [{'kind': 'replay', 'term': later}]
    cs.append(c)
    c = case('c13/replay-acold/two-subscribers', T('conn', 1), [[SL(20), {'op': 'sub', 'u': 2}, SL(300)]], tags=['replay-once'])
    c['conn'] = [{'kind': 'replay', 'term': later}]
    cs.append(c)
    return cs


CATALOGUES = {'C04': catalogue_c04, 'C06': catalogue_c06, 'C14': catalogue_c14, 'C07': catalogue_c07, 'C13': catalogue_c13, 'C08': catalogue_c08, 'C09': catalogue_c09, 'C15': catalogue_c15, 'C16': catalogue_c16, 'C18': catalogue_c18, 'C19': catalogue_c19, 'C05': catalogue_c05, 'C11': catalogue_c11, 'C12': catalogue_c12}


# ------------------------------------------------------------------------------------------ engine
def explore(work, harness, cases, mode, bound, max_runs, seed, tag):
    path = '%s/%s.cases.json' % (work, tag)
    with open(path, 'w') as f:
        json.dump(cases, f)
    procs = []
    for k in range(NPROC):
        p = subprocess.Popen([harness, 'conc', '--cases', path, '--mode', mode, '--bound', str(bound), '--max-runs', str(max_runs), '--seed', str(seed),
                              '--shard', str(k), '--of', str(NPROC), '--out', '%s/%s.tr%d.ndjson' % (work, tag, k), '--scheds', '%s/%s.sched%d.json' % (work, tag, k)],
                             stdout=subprocess.PIPE, stderr=subprocess.PIPE, text=True)
        procs.append(p)
    per_case = []
    for p in procs:
        out, err = p.communicate()
        if p.returncode != 0:
            raise ToolError('harness conc failed (rc %s): ' % p.returncode + err[-2000:])
        per_case += json.loads(out.strip().splitlines()[-1])['cases']
    scheds = {}
    for k in range(NPROC):
        for s in json.load(open('%s/%s.sched%d.json' % (work, tag, k))):
            scheds[s['id']] = s
    return per_case, scheds, ['%s/%s.tr%d.ndjson' % (work, tag, k) for k in range(NPROC)]


def validate(work, files, module, tag):
    CHUNK = 4000
    chunks = [[]]
    traces = {}
    cur = None
    for fn in files:
        if not os.path.exists(fn):
            continue
        with open(fn) as f:
            for line in f:
                if '"ev":"reset"' in line:
                    if len(chunks[-1]) >= CHUNK:
                        chunks.append([])
                    cur = json.loads(line)['id']
                    traces[cur] = []
                chunks[-1].append(line)
                traces[cur].append(line)
    gen = work + '/gen'
    cfg = '%s/%s.cfg' % (gen, module)
    with open(cfg, 'w') as f:
        f.write('SPECIFICATION Spec\nPOSTCONDITION Consumed\nCHECK_DEADLOCK FALSE\n')
    results, errors = {}, []
    idx = [i for i in range(len(chunks)) if chunks[i]]
    lock = threading.Lock()

    def worker():
        while True:
            with lock:
                if not idx:
                    return
                i = idx.pop()
            path = '%s/%s.tv%d.ndjson' % (work, tag, i)
            with open(path, 'w') as f:
                f.writelines(chunks[i])
            env = dict(os.environ)
            env['TRACE'] = path
            env['JAVA_TOOL_OPTIONS'] = '-Xss1g -Xmx3g'
            r = subprocess.run(['timeout', '1500'] + tlc_cmd(1, '%s/mdtv-%s-%d' % (work, tag, i), cfg, module + '.tla'), cwd=gen, capture_output=True, text=True, env=env)
            for line in r.stdout.splitlines():
                if line.startswith('"{'):
                    v = json.loads(json.loads(line))
                    results[v['trace']] = v
            if 'Model checking completed. No error has been found.' not in r.stdout:
                errors.append(r.stdout[-3000:])

    ths = [threading.Thread(target=worker) for _ in range(NPROC)]
    for t in ths:
        t.start()
    for t in ths:
        t.join()
    if errors:
        raise ToolError('trace validation did not complete: ' + errors[0])
    return results, traces


def model_check(work, module, cfgtext, tag, workers=8, timeout_s=600, expect=None):
    """TLC on a design-level L1 model; returns states / distinct / whether an invariant was violated."""
    gen = work + '/gen'
    cfg = '%s/%s.cfg' % (gen, tag)
    with open(cfg, 'w') as f:
        f.write(cfgtext)
    env = dict(os.environ)
    env['JAVA_TOOL_OPTIONS'] = '-Xss512m -Xmx8g'
    t0 = time.time()
    r = subprocess.run(['timeout', str(timeout_s)] + tlc_cmd(workers, '%s/md-%s' % (work, tag), cfg, module + '.tla', ['-continue'] if expect else None), cwd=gen, capture_output=True, text=True, env=env)
    st = {'module': module, 'config': tag, 'expected_violation': expect, 'states': 0, 'distinct': 0, 'violated': None, 'completed': False, 'wall_s': round(time.time() - t0, 1)}
    for line in r.stdout.splitlines():
        m = re.match(r'(\d+) states generated, (\d+) distinct states found', line)
        if m:
            st['states'], st['distinct'] = int(m.group(1)), int(m.group(2))
        m = re.match(r'Error: Invariant (\S+) is violated', line)
        if m and st['violated'] is None:
            st['violated'] = m.group(1)
        if 'is violated' in line and 'roperty' in line:
            st['violated'] = line.strip()
        if 'Deadlock reached' in line:
            st['violated'] = 'deadlock'
        if 'Model checking completed. No error has been found.' in line or 'states left on queue' in line and ' 0 states left on queue' in line:
            st['completed'] = True
    if not st['completed'] and st['violated'] is None:
        raise ToolError('TLC failed on %s/%s: %s' % (module, tag, r.stdout[-1500:]))
    return st


def apalache_inductive(work, module, nthreads, timeout_s=900):
    """Apalache discharges `Init => IndInv` (length 0) and `IndInv /\\ Next => IndInv'` (length 1, from IndInit = IndInv) of a small
    unbounded-history companion model: the safety clauses then hold for histories of ANY length, for the given threads."""
    d = '%s/ap-%s-%d' % (work, module, nthreads)
    os.makedirs(d, exist_ok=True)
    src = open('%s/%s.tla' % (SPEC, module)).read()
    src = re.sub(r'ConstInit == Threads = \{[^}]*\}', 'ConstInit == Threads = {%s}' % ', '.join(str(i) for i in range(1, nthreads + 1)), src)
    with open('%s/%s.tla' % (d, module), 'w') as f:
        f.write(src)
    t0 = time.time()
    st = {'module': module, 'config': 'apalache_inductive_%d_threads' % nthreads, 'expected_violation': None, 'states': 0, 'distinct': 0, 'violated': None, 'completed': False}
    for what, args in [('base', ['--init=Init', '--length=0']), ('step', ['--init=IndInit', '--length=1'])]:
        r = subprocess.run(['timeout', str(timeout_s), 'apalache-mc', 'check', '--cinit=ConstInit', '--inv=IndInv', '--out-dir=' + d + '/out'] + args + [module + '.tla'], cwd=d, capture_output=True, text=True)
        if 'The outcome is: NoError' in r.stdout:
            continue
        if 'The outcome is: Error' in r.stdout:
            st['violated'] = 'IndInv is not inductive (%s)' % what
            break
        raise ToolError('apalache-mc failed on %s (%s): %s' % (module, what, (r.stdout + r.stderr)[-1200:]))
    st['completed'] = st['violated'] is None
    st['wall_s'] = round(time.time() - t0, 1)
    return st


def queue_drift(work, harness, cases, seed):
    """Lock-level conformance of the real scheduler queue with the L1 model SchedQueue (drift, never an alarm):
    a sample of schedules is re-run with the facade's lock log on; each lock / condvar operation is mapped to its role by
    the source line at the lock's creation site and must be exactly one SchedQueue action of that thread."""
    out = {'cases': 0, 'traces': 0, 'lines': 0, 'drift': []}
    todo = [c for c in cases if c.get('kind') == 'queue' and not c.get('posting')]
    path = work + '/qd.cases.json'
    with open(path, 'w') as f:
        json.dump(todo, f)
    r = subprocess.run([harness, 'conc', '--cases', path, '--mode', 'random', '--max-runs', '60', '--seed', str(seed), '--log-locks', '1', '--out', work + '/qd.ndjson'], capture_output=True, text=True)
    if r.returncode != 0:
        raise ToolError('harness conc --log-locks failed: ' + r.stderr[-1500:])
    roles = {}

    def role(site):
        if site not in roles:
            fn, ln = site.rsplit(':', 1)
            fn = 'src/' + fn.split('/src/', 1)[1] if '/src/' in fn else fn       # the site names a file of the instrumented scratch copy
            try:
                line = open(os.environ.get('ARX_REPO', '/repo') + '/' + fn).read().splitlines()[int(ln) - 1]
            except Exception:
                line = ''
            roles[site] = 'queue' if re.search(r'queue\s*:\s*Mutex::new', line) else 'abort' if re.search(r'abort\s*:\s*RwLock::new', line) else 'other'
        return roles[site]

    byname = {c['name']: c for c in todo}
    per_case = {}
    cur = None
    for line in open(work + '/qd.ndjson'):
        v = json.loads(line)
        if v['ev'] == 'reset':
            cur = {'name': v['name'], 'ev': []}
            per_case.setdefault(v['name'], []).append(cur)
        elif v['ev'] != 'quiesce':
            cur['ev'].append(v)
    gen = work + '/gen'
    for name, runs in per_case.items():
        c = byname[name]
        lines = []
        for run in runs:
            evs = run['ev']
            hth = [e['t'] for e in evs if e['ev'] == 'hthread']
            lockrole = {}
            # client threads in the order the harness spawned them (= the order of the case's thread list)
            spawned = [e['v'] for e in evs if e['ev'] == 'spawn' and e['t'] == 0]
            tmap = {t: i + 1 for i, t in enumerate([t for t in spawned if t in hth])}
            worker = next((e['v'] for e in evs if e['ev'] == 'spawn' and e['t'] == 0 and e['v'] not in hth), None)
            if worker is None:
                continue
            tmap[worker] = 0
            lines.append(json.dumps({'ev': 'reset', 't': 0, 'task': 0, 'scripts': [[s['op'] for s in th] for th in c['threads']]}))
            for e in evs:
                if e['t'] not in tmap:
                    continue
                t = tmap[e['t']]
                if e['ev'] == 'lk':
                    if e['op'] in ('acq', 'rel'):
                        if e['op'] == 'acq':
                            lockrole[e['lock']] = role(e['site'])
                        ro = lockrole.get(e['lock'], 'other')
                        if ro == 'queue':
                            lines.append(json.dumps({'ev': e['op'] + '_queue', 't': t, 'task': 0}))
                        elif ro == 'abort':
                            lines.append(json.dumps({'ev': e['op'] + e['m'] + '_abort', 't': t, 'task': 0}))
                    elif e['op'] in ('cvwait', 'cvwake', 'notify'):
                        lines.append(json.dumps({'ev': e['op'], 't': t, 'task': 0}))
                elif e['ev'] in ('postcall', 'postret', 'abortcall', 'abortret', 'start', 'end'):
                    lines.append(json.dumps({'ev': e['ev'], 't': t, 'task': e.get('task', 0)}))
            out['traces'] += 1
        if not lines:
            continue
        out['cases'] += 1
        out['lines'] += len(lines)
        tag = 'qd_' + re.sub(r'[^a-z0-9]', '_', name)
        tpath = '%s/%s.ndjson' % (work, tag)
        with open(tpath, 'w') as f:
            f.write('\n'.join(lines) + '\n')
        cfg = '%s/%s.cfg' % (gen, tag)
        with open(cfg, 'w') as f:
            f.write('SPECIFICATION TSpec\nCONSTANTS NClients = %d\n MaxOps = %d\n AbortingTasks = {%s}\n SpuriousWake = FALSE\nPOSTCONDITION Accepted\nCHECK_DEADLOCK FALSE\n'
                    % (max(1, len(c['threads'])), max(len(th) for th in c['threads']), ', '.join(str(x) for x in c.get('aborting', []))))
        env = dict(os.environ)
        env['TRACE'] = tpath
        env['JAVA_TOOL_OPTIONS'] = '-Xss1g -Xmx3g'
        rr = subprocess.run(['timeout', '600'] + tlc_cmd(1, '%s/md-%s' % (work, tag), cfg, 'SchedQueueTrace.tla'), cwd=gen, capture_output=True, text=True, env=env)
        if 'Model checking completed. No error has been found.' not in rr.stdout:
            m = re.search(r'DRIFT: [^\n]*\n?[^\n]*', rr.stdout)
            out['drift'].append({'case': name, 'detail': (m.group(0) if m else rr.stdout[-600:])[:600]})
    return out


def catalogue_sinkdrift():
    """cases whose emitting / unsubscribing threads drive ONE subscriber Observer through one StreamController (map over a
    subject; merge of two subjects for next / error): every call maps 1:1 to a call of the design model SinkConc"""
    cs = []
    m = T('map', 0, 'inc', ins=[S(1)])
    mg = T('merge', ins=[S(1), S(2)])
    n1, n2 = E(1, 'n', 11), E(1, 'n', 12)
    cs.append(case('sd/map/next-vs-error', m, [[n1, n2], [E(1, 'e', 5)]]))
    cs.append(case('sd/map/next-vs-complete', m, [[n1, n2], [E(1, 'c')]]))
    cs.append(case('sd/map/error-vs-complete', m, [[E(1, 'e', 5)], [E(1, 'c')]]))
    cs.append(case('sd/map/next-vs-unsub', m, [[n1, n2], [UNSUB1]]))
    cs.append(case('sd/map/error-vs-unsub', m, [[n1, E(1, 'e', 5)], [UNSUB1]]))
    cs.append(case('sd/map/complete-vs-unsub-vs-next', m, [[E(1, 'c')], [UNSUB1], [n1]]))
    cs.append(case('sd/merge/error-vs-items', mg, [[E(1, 'e', 5)], [E(2, 'n', 21), E(2, 'n', 22)]]))
    cs.append(case('sd/merge/error-vs-error', mg, [[E(1, 'n', 11), E(1, 'e', 5)], [E(2, 'e', 6)]]))
    cs.append(case('sd/merge/error-vs-unsub', mg, [[E(1, 'e', 5)], [E(2, 'n', 21)], [UNSUB1]]))
    return cs


def sink_drift(work, harness, seed, runs=40, corrupt=None, tagp='sd'):
    """Lock-level conformance of the real subscriber Observer / StreamController with the L1 design model SinkConc
    (spec/SinkConcTrace.tla): drift, never an alarm."""
    out = {'cases': 0, 'traces': 0, 'lines': 0, 'drift': []}
    todo = catalogue_sinkdrift()
    path = work + '/sd.cases.json'
    with open(path, 'w') as f:
        json.dump(todo, f)
    r = subprocess.run([harness, 'conc', '--cases', path, '--mode', 'random', '--max-runs', str(runs), '--seed', str(seed), '--log-locks', '1', '--out', work + '/sd.ndjson'], capture_output=True, text=True)
    if r.returncode != 0:
        raise ToolError('harness conc --log-locks failed: ' + r.stderr[-1500:])
    byname = {c['name']: c for c in todo}
    per_case = {}
    cur = None
    for line in open(work + '/sd.ndjson'):
        v = json.loads(line)
        if v['ev'] == 'reset':
            cur = {'name': v['name'], 'ev': []}
            per_case.setdefault(v['name'], []).append(cur)
        elif v['ev'] != 'quiesce':
            cur['ev'].append(v)
    kname = {'n': 'next', 'e': 'error', 'c': 'complete'}
    gen = work + '/gen'
    for name, runs_ in per_case.items():
        c = byname[name]
        scripts = [[(kname[s['k']] if s['op'] == 'emit' else 'unsub') for s in th] for th in c['threads']]
        lines = []
        for run in runs_:
            evs = run['ev']
            hth = set(e['t'] for e in evs if e['ev'] == 'hthread')
            spawned = [e['v'] for e in evs if e['ev'] == 'spawn' and e['t'] == 0 and e['v'] in hth]     # case threads in the order of the case
            tmap = {t: i + 1 for i, t in enumerate(spawned)}
            # the three callback slots of subscriber 1: the first three locks created at FunctionWrapper's RwLock::new after its subscribe call began
            slots = []
            seen_sub = False
            for e in evs:
                if e['ev'] == 'subcall' and e.get('u') == 1:
                    seen_sub = True
                elif seen_sub and e['ev'] == 'lk' and e['op'] == 'new' and re.search(r'internals/function_wrapper\.rs:\d+$', e.get('site', '')):
                    slots.append(e['lock'])
                    if len(slots) == 3:
                        break
            if len(slots) < 3:
                out['drift'].append({'case': name, 'detail': 'the three callback slots of the subscriber could not be identified in the lock log'})
                break
            role = dict(zip(slots, 'NEC'))
            lines.append(json.dumps({'ev': 'reset', 't': 0, 'k': '', 'scripts': scripts}))
            for e in evs:
                if e['t'] not in tmap:
                    continue
                t = tmap[e['t']]
                if e['ev'] == 'lk':
                    if e['op'] == 'acq' and e['lock'] in role:
                        lines.append(json.dumps({'ev': '%s_%s' % (e['m'], role[e['lock']]), 't': t, 'k': ''}))
                elif e['ev'] == 'emitcall':
                    lines.append(json.dumps({'ev': 'call', 't': t, 'k': kname[e['k']]}))
                elif e['ev'] == 'unsubcall':
                    lines.append(json.dumps({'ev': 'call', 't': t, 'k': 'unsub'}))
                elif e['ev'] in ('emitret', 'unsubret'):
                    lines.append(json.dumps({'ev': 'ret', 't': t, 'k': ''}))
                elif e['ev'] == 'cbstart' and e.get('u') == 1:
                    lines.append(json.dumps({'ev': 'cb', 't': t, 'k': e['k']}))
            out['traces'] += 1
        if not lines:
            continue
        if corrupt:
            lines = corrupt(lines)
            if lines is None:
                continue
        out['cases'] += 1
        out['lines'] += len(lines)
        tag = tagp + '_' + re.sub(r'[^a-z0-9]', '_', name)
        tpath = '%s/%s.ndjson' % (work, tag)
        with open(tpath, 'w') as f:
            f.write('\n'.join(lines) + '\n')
        cfg = '%s/%s.cfg' % (gen, tag)
        with open(cfg, 'w') as f:
            f.write('SPECIFICATION TSpec\nCONSTANTS NThreads = %d\n MaxCalls = 3\n ArbiterFix = TRUE\n WithFinalize = TRUE\nCONSTRAINT Progress\nINVARIANT ModelInvariants\nPOSTCONDITION Accepted\nCHECK_DEADLOCK FALSE\n' % len(c['threads']))
        env = dict(os.environ)
        env['TRACE'] = tpath
        env['JAVA_TOOL_OPTIONS'] = '-Xss1g -Xmx3g'
        rr = subprocess.run(['timeout', '600'] + tlc_cmd(1, '%s/md-%s' % (work, tag), cfg, 'SinkConcTrace.tla'), cwd=gen, capture_output=True, text=True, env=env)
        if 'Model checking completed. No error has been found.' not in rr.stdout:
            m = re.search(r'DRIFT: [^\n]*\n?[^\n]*', rr.stdout)
            out['drift'].append({'case': name, 'detail': (m.group(0) if m else rr.stdout[-900:])[:900]})
    return out


def repo_src_line(site):
    """the source line of the checked tree at a lock's creation site (`.../src/<file>:<line>`)"""
    fn, ln = site.rsplit(':', 1)
    fn = fn[fn.index('/src/') + 1:] if '/src/' in fn else fn
    try:
        return open(os.path.join(os.environ.get('ARX_REPO', '/repo'), fn)).read().splitlines()[int(ln) - 1]
    except Exception:
        return ''


def subject_drift(work, harness, seed, runs=40, corrupt=None, tagp='sj'):
    """Lock-level conformance of the real plain Subject with the L1 design model SubjectConc (spec/SubjectConcTrace.tla):
    drift, never an alarm."""
    out = {'cases': 0, 'traces': 0, 'lines': 0, 'drift': []}
    SUB2 = {'op': 'sub', 'u': 2}
    todo = [case('sj/plain/producer-vs-latesub', S(1), [items(1, 3), [SUB2]]),
            case('sj/plain/producer-vs-unsub', S(1), [items(1, 3), [], [UNSUB1]]),
            case('sj/plain/producer-latesub-unsub', S(1), [items(1, 3), [SUB2], [UNSUB1]]),
            case('sj/plain/producer2-latesub-unsub', S(1), [items(1, 2), [SUB2], [UNSUB1]])]
    path = work + '/sj.cases.json'
    with open(path, 'w') as f:
        json.dump(todo, f)
    r = subprocess.run([harness, 'conc', '--cases', path, '--mode', 'random', '--max-runs', str(runs), '--seed', str(seed), '--log-locks', '1', '--out', work + '/sj.ndjson'], capture_output=True, text=True)
    if r.returncode != 0:
        raise ToolError('harness conc --log-locks failed: ' + r.stderr[-1500:])
    byname = {c['name']: c for c in todo}
    per_case = {}
    cur = None
    for line in open(work + '/sj.ndjson'):
        v = json.loads(line)
        if v['ev'] == 'reset':
            cur = {'name': v['name'], 'ev': []}
            per_case.setdefault(v['name'], []).append(cur)
        elif v['ev'] != 'quiesce':
            cur['ev'].append(v)
    gen = work + '/gen'
    isfw = lambda e: e['ev'] == 'lk' and e['op'] == 'new' and re.search(r'internals/function_wrapper\.rs:\d+$', e.get('site', ''))
    for name, runs_ in per_case.items():
        c = byname[name]
        lines = []
        bad = None
        for run in runs_:
            evs = run['ev']
            hth = set(e['t'] for e in evs if e['ev'] == 'hthread')
            spawned = [e['v'] for e in evs if e['ev'] == 'spawn' and e['t'] == 0 and e['v'] in hth]
            names = ['prod', 'sub', 'unsub']
            tmap = {t: names[i] for i, t in enumerate(spawned) if i < 3}
            # the observer table of subject 1: the first lock created at the line of subject.rs that initialises `observers`
            table = next((e['lock'] for e in evs if e['ev'] == 'lk' and e['op'] == 'new' and 'subjects/subject.rs' in e.get('site', '') and re.search(r'observers\s*:', repo_src_line(e['site']))), None)
            # next slot of observer u: the first FunctionWrapper lock created by the subscribing thread after its subscribe call began
            slot = {}
            subt = {}
            for e in evs:
                if e['ev'] == 'subcall' and e.get('u') in (1, 2) and e['u'] not in subt:
                    subt[e['u']] = e['t']
                elif isfw(e):
                    for u, t in subt.items():
                        if u not in slot and t == e['t']:
                            slot[u] = e['lock']
            if table is None or 1 not in slot:
                bad = 'the observer table of the subject / the next slot of observer 1 could not be identified in the lock log'
                break
            rslot = {v: k for k, v in slot.items()}
            lines.append(json.dumps({'ev': 'reset', 't': '', 'o': 0, 'v': 0}))
            for e in evs:
                t = tmap.get(e['t'])
                if t is None:
                    continue
                L = lambda ev, o=0, v=0: lines.append(json.dumps({'ev': ev, 't': t, 'o': o, 'v': v}))
                if e['ev'] == 'lk' and e['op'] == 'acq':
                    if e['lock'] == table:
                        if t == 'prod' and e['m'] == 'R':
                            L('snap')
                        elif t == 'sub' and e['m'] == 'W':
                            L('reg')
                        elif t == 'unsub' and e['m'] == 'W':
                            L('rm')
                        else:
                            L('table-%s-by-%s' % (e['m'], t))        # an access of the table the model does not have
                    elif e['lock'] in rslot:
                        if t == 'prod' and e['m'] == 'R':
                            L('try', rslot[e['lock']])
                        elif t == 'unsub' and e['m'] == 'W' and rslot[e['lock']] == 1:
                            L('clear')
                        elif t == 'prod':
                            L('slot-%s-by-prod' % e['m'])
                elif e['ev'] == 'emitcall' and t == 'prod':
                    L('call', 0, e['v'] - 10)
                elif e['ev'] == 'emitret' and t == 'prod':
                    L('ret')
                elif e['ev'] == 'cbstart' and t == 'prod':
                    L('cb', e['u'], e['v'] - 10)
                elif e['ev'] in ('subcall', 'subret') and t == 'sub':
                    L(e['ev'])
                elif e['ev'] in ('unsubcall', 'unsubret') and t == 'unsub':
                    L(e['ev'])
            out['traces'] += 1
        if bad:
            out['drift'].append({'case': name, 'detail': bad})
            continue
        if not lines:
            continue
        if corrupt:
            lines = corrupt(lines)
            if lines is None:
                continue
        # a `try` line says whether the callback ran (the next line of the producer is the matching cb)
        ev_ = [json.loads(x) for x in lines]
        for i_, e_ in enumerate(ev_):
            if e_['ev'] == 'try':
                nxt = next((x for x in ev_[i_ + 1:] if x['t'] == 'prod' or x['ev'] == 'reset'), None)
                e_['v'] = 1 if nxt and nxt['ev'] == 'cb' and nxt['o'] == e_['o'] else 0
        lines = [json.dumps(x) for x in ev_]
        out['cases'] += 1
        out['lines'] += len(lines)
        tag = tagp + '_' + re.sub(r'[^a-z0-9]', '_', name)
        tpath = '%s/%s.ndjson' % (work, tag)
        with open(tpath, 'w') as f:
            f.write('\n'.join(lines) + '\n')
        cfg = '%s/%s.cfg' % (gen, tag)
        nvals = len([s_ for s_ in c['threads'][0] if s_['op'] == 'emit'])
        with_unsub = len(c['threads']) > 2
        with open(cfg, 'w') as f:
            f.write('SPECIFICATION TSpec\nCONSTANTS Kind = "plain"\n NValues = %d\n WithUnsub = %s\nCONSTRAINT Progress\nINVARIANT ModelInvariants\nPOSTCONDITION Accepted\nCHECK_DEADLOCK FALSE\n' % (nvals, 'TRUE' if with_unsub else 'FALSE'))
        env = dict(os.environ)
        env['TRACE'] = tpath
        env['JAVA_TOOL_OPTIONS'] = '-Xss1g -Xmx3g'
        rr = subprocess.run(['timeout', '600'] + tlc_cmd(1, '%s/md-%s' % (work, tag), cfg, 'SubjectConcTrace.tla'), cwd=gen, capture_output=True, text=True, env=env)
        if 'Model checking completed. No error has been found.' not in rr.stdout:
            m = re.search(r'DRIFT: [^\n]*\n?[^\n]*\n?[^\n]*', rr.stdout)
            out['drift'].append({'case': name, 'detail': (m.group(0) if m else rr.stdout[-900:])[:900]})
    return out


def comb_drift(work, harness, seed, runs=40, corrupt=None, tagp='cd'):
    """Lock-level conformance of the real merge (one input per thread) with the L1 design model CombConc (spec/CombConcTrace.tla)."""
    out = {'cases': 0, 'traces': 0, 'lines': 0, 'drift': []}
    todo = [case('cd/merge2/1-item-each', T('merge', ins=[S(1), S(2)]), [items(1, 1) + [E(1, 'c')], items(2, 1) + [E(2, 'c')]]),
            case('cd/merge2/2-items-each', T('merge', ins=[S(1), S(2)]), [items(1, 2) + [E(1, 'c')], items(2, 2) + [E(2, 'c')]]),
            case('cd/merge3/1-item-each', T('merge', ins=[S(1), S(2), S(3)]), [items(1, 1) + [E(1, 'c')], items(2, 1) + [E(2, 'c')], items(3, 1) + [E(3, 'c')]])]
    path = work + '/cd.cases.json'
    with open(path, 'w') as f:
        json.dump(todo, f)
    r = subprocess.run([harness, 'conc', '--cases', path, '--mode', 'random', '--max-runs', str(runs), '--seed', str(seed), '--log-locks', '1', '--out', work + '/cd.ndjson'], capture_output=True, text=True)
    if r.returncode != 0:
        raise ToolError('harness conc --log-locks failed: ' + r.stderr[-1500:])
    byname = {c['name']: c for c in todo}
    per_case = {}
    cur = None
    for line in open(work + '/cd.ndjson'):
        v = json.loads(line)
        if v['ev'] == 'reset':
            cur = {'name': v['name'], 'ev': []}
            per_case.setdefault(v['name'], []).append(cur)
        elif v['ev'] != 'quiesce':
            cur['ev'].append(v)
    gen = work + '/gen'
    for name, runs_ in per_case.items():
        c = byname[name]
        lines = []
        bad = None
        for run in runs_:
            evs = run['ev']
            hth = set(e['t'] for e in evs if e['ev'] == 'hthread')
            spawned = [e['v'] for e in evs if e['ev'] == 'spawn' and e['t'] == 0 and e['v'] in hth]
            tmap = {t: i + 1 for i, t in enumerate(spawned)}
            slotn = None
            umap = None
            seen_sub = False
            for e in evs:
                if e['ev'] == 'subcall' and e.get('u') == 1:
                    seen_sub = True
                elif seen_sub and e['ev'] == 'lk' and e['op'] == 'new':
                    if slotn is None and re.search(r'internals/function_wrapper\.rs:\d+$', e.get('site', '')):
                        slotn = e['lock']
                    if umap is None and 'internals/stream_controller.rs' in e.get('site', '') and re.search(r'unscribers\s*:', repo_src_line(e['site'])):
                        umap = e['lock']
            if slotn is None or umap is None:
                bad = 'the subscriber\'s next slot / the controller\'s unsubscriber map could not be identified in the lock log'
                break
            lines.append(json.dumps({'ev': 'reset', 't': 0, 'k': ''}))
            fresh, fresh_rm = {}, {}
            for e in evs:
                if e['t'] not in tmap:
                    continue
                t = tmap[e['t']]
                if e['ev'] == 'emitcall':
                    lines.append(json.dumps({'ev': 'call', 't': t, 'k': e['k']}))
                    fresh[t] = True
                    fresh_rm[t] = True
                elif e['ev'] == 'emitret':
                    lines.append(json.dumps({'ev': 'ret', 't': t, 'k': ''}))
                elif e['ev'] == 'lk' and e['op'] == 'acq':
                    if e['lock'] == slotn and e['m'] == 'R' and fresh.get(t):
                        lines.append(json.dumps({'ev': 'chk', 't': t, 'k': ''}))
                        fresh[t] = False
                    elif e['lock'] == umap and e['m'] == 'W' and fresh_rm.get(t):      # (finalize() clears the map under the same lock later: not a model step)
                        lines.append(json.dumps({'ev': 'rm', 't': t, 'k': ''}))
                        fresh_rm[t] = False
                elif e['ev'] == 'cbstart' and e.get('u') == 1:
                    lines.append(json.dumps({'ev': 'cb', 't': t, 'k': e['k']}))
            out['traces'] += 1
        if bad:
            out['drift'].append({'case': name, 'detail': bad})
            continue
        if corrupt:
            lines = corrupt(lines)
            if lines is None:
                continue
        out['cases'] += 1
        out['lines'] += len(lines)
        tag = tagp + '_' + re.sub(r'[^a-z0-9]', '_', name)
        tpath = '%s/%s.ndjson' % (work, tag)
        with open(tpath, 'w') as f:
            f.write('\n'.join(lines) + '\n')
        cfg = '%s/%s.cfg' % (gen, tag)
        nitems = len([s_ for s_ in c['threads'][0] if s_['op'] == 'emit' and s_['k'] == 'n'])
        with open(cfg, 'w') as f:
            f.write('SPECIFICATION TSpec\nCONSTANTS NInputs = %d\n NItems = %d\n Amb = FALSE\n AtomicRemove = TRUE\n AtomicElect = TRUE\nCONSTRAINT Progress\nINVARIANT ModelInvariants\nPOSTCONDITION Accepted\nCHECK_DEADLOCK FALSE\n' % (len(c['threads']), nitems))
        env = dict(os.environ)
        env['TRACE'] = tpath
        env['JAVA_TOOL_OPTIONS'] = '-Xss1g -Xmx3g'
        rr = subprocess.run(['timeout', '600'] + tlc_cmd(1, '%s/md-%s' % (work, tag), cfg, 'CombConcTrace.tla'), cwd=gen, capture_output=True, text=True, env=env)
        if 'Model checking completed. No error has been found.' not in rr.stdout:
            m = re.search(r'DRIFT: [^\n]*\n?[^\n]*\n?[^\n]*', rr.stdout)
            out['drift'].append({'case': name, 'detail': (m.group(0) if m else rr.stdout[-900:])[:900]})
    return out


def load_known():
    p = V + '/known_findings.json'
    if not os.path.exists(p):
        return []
    out = []
    for k in json.load(open(p)).get('findings', []):
        if 'match' in k:
            out.append(k)
        for extra in k.get('match_also', []):      # the same defect reached through another kind of history
            out.append(dict(k, match=extra))
    return out


def sig_in_order_modulo_repeats(lines, nogap=False):
    """the late-subscriber findings: an item whose push OVERLAPS the late subscriber's subscribe() call may reach it twice, the
    live copy anywhere before the copy it is handed / replayed; once that first copy of each such duplicated item is dropped,
    every subscriber has each producer's items once and in order (a gap is possible for BehaviorSubject).  An item that arrives
    out of order WITHOUT being duplicated, or a duplicate of an item pushed outside the subscribe() call, is not this finding."""
    ev = [json.loads(x) for x in lines]
    sub = {}
    for i, e in enumerate(ev):
        if e['ev'] == 'subcall' and e['u'] not in sub:
            sub[e['u']] = [i, len(ev)]
        elif e['ev'] == 'subret' and e['u'] in sub and sub[e['u']][1] == len(ev):
            sub[e['u']][1] = i
    calls = {}
    for i, e in enumerate(ev):
        if e['ev'] == 'emitcall' and e['k'] == 'n':
            calls[e['v']] = [i, len(ev)]
        elif e['ev'] == 'emitret' and e['k'] == 'n' and e['v'] in calls:
            calls[e['v']][1] = i
    per = {}
    left = set(e['u'] for e in ev if e['ev'] == 'unsubcall')
    for e in ev:
        if e['ev'] == 'cbstart' and e['k'] == 'n':
            per.setdefault(e['u'], []).append(e['v'])
    if nogap:
        for u in sub:
            per.setdefault(u, [])
    for u, vs in per.items():
        s0, s1 = sub.get(u, [0, 0])
        overlap = set(v for v, (c, r) in calls.items() if c < s1 and r > s0)
        rest = list(vs)
        for v in overlap:
            if rest.count(v) == 2:
                rest.remove(v)          # the first (live) copy
        for prod in set(v // 10 for v in rest):
            seq = [v for v in rest if v // 10 == prod]
            if seq != sorted(set(seq)):
                return False
        if nogap and u not in left:
            # ReplaySubject: the recorded defect is a duplicate, never a loss - apart from the duplicates every subscriber that
            # stays has every item ever pushed
            for prod in set(v // 10 for v in calls):
                if [v for v in rest if v // 10 == prod] != sorted(v for v in calls if v // 10 == prod):
                    return False
    return True


def sig_self_deadlock(lines, site):
    """some thread is blocked forever on a lock created in `site` that it holds itself (same-thread re-entrancy, not a lock-order cycle)"""
    q = json.loads(lines[-1])
    for b in q.get('blocked', []):
        m = re.match(r't(\d+): blocked [RW] on lock#\d+ \[([^\]]*)\] held by w=Some\((\d+)\)', b)
        if m and m.group(1) == m.group(3) and site in m.group(2):
            return True
    return False


def sig_zip_reorder(lines):
    """the delivered tuples are exactly the expected ones, only in another order"""
    ev = [json.loads(x) for x in lines]
    d = [e['v'] for e in ev if e['ev'] == 'cbstart' and e['k'] == 'n']
    per = {}
    for e in ev:
        if e['ev'] == 'emitcall' and e['k'] == 'n':
            per.setdefault(e['src'], []).append(e['v'] % 10)
    if not per:
        return False
    n = min(len(v) for v in per.values())
    exp = []
    for i in range(n):
        x = 1
        for s_ in sorted(per):
            x = x * 10 + per[s_][i]
        exp.append(x)
    return sorted(d) == sorted(exp) and d != exp


def kf_match(kf, prop, flag, name, fin, lines=None):
    m = kf['match']
    if m.get('signature') == 'zip_reorder' and not (lines and sig_zip_reorder(lines)):
        return False
    if m.get('signature') == 'in_order_no_gap_modulo_repeats' and not (lines and sig_in_order_modulo_repeats(lines, nogap=True)):
        return False
    if m.get('signature') == 'in_order_modulo_repeats' and not (lines and sig_in_order_modulo_repeats(lines)):
        return False
    if m.get('signature') == 'self_deadlock' and not (lines and sig_self_deadlock(lines, m.get('site', ''))):
        return False
    if kf['property'] != prop or m.get('kind') != 'conc':
        return False
    if 'flag' in m and m['flag'] != flag:
        return False
    if 'name_re' in m and not re.search(m['name_re'], name):
        return False
    if 'fin_any' in m and fin not in m['fin_any']:
        return False
    return True


def run_conc_check(prop, tier, flags, seed, design_ref, models=(), extra_cases=None, module='ConcTrace', write=True, clear_replays=True):
    t0 = time.time()
    harness = build_harness()
    work = '/tmp/arxv-%s-%d' % (prop, os.getpid())
    shutil.rmtree(work, ignore_errors=True)
    os.makedirs(work + '/gen')
    for m in os.listdir(SPEC):
        if m.endswith('.tla'):
            shutil.copy(SPEC + '/' + m, work + '/gen/' + m)
    known = load_known()
    try:
        cases = CATALOGUES[prop](tier) if prop in CATALOGUES else []
        if extra_cases:
            cases += extra_cases
        byname = {c['name']: c for c in cases}
        # ---- design level: TLC on the L1 models
        mc = [apalache_inductive(work, m[0], m[2]) if m[1] == 'apalache' else
              model_check(work, m[0], m[2], m[1], timeout_s=600 if tier == 'quick' else 3600, expect=(m[3] if len(m) > 3 else None)) for m in models]
        # ---- schedules of the real code
        bound = 2 if tier == 'quick' else 3
        per_case, scheds, files = explore(work, harness, cases, 'dfs', bound, 4000 if tier == 'quick' else 40000, seed, 'dfs')
        # the depth-first enumeration reaches early preemptions last: where the cap cuts it off, every schedule that deviates from the
        # default one at exactly one choice point is run in a pass of its own (linear in the length of the run)
        done = set(pc['case'] for pc in per_case if pc['exhausted_within_bound'])
        pc1, sch1, files1 = explore(work, harness, [c for c in cases if c['name'] not in done], 'sweep', 1, 4000 if tier == 'quick' else 40000, seed, 'dfs1')
        pc2, sch2, files2 = explore(work, harness, cases, 'random', 0, 300 if tier == 'quick' else 5000, seed, 'rnd')
        # (trace ids of the explorations may collide: each pass is validated and looked up on its own)
        verdicts, traces = validate(work, files, module, 'dfs')
        v1, t1 = validate(work, files1, module, 'dfs1')
        v2, t2 = validate(work, files2, module, 'rnd')
        out_lines, violations, kf_hits = [], [], {}
        seen = set()
        allv = [(verdicts, traces, scheds), (v1, t1, sch1), (v2, t2, sch2)]
        n_valid = 0
        for vs, ts, ss in allv:
            for tid, v in sorted(vs.items()):
                n_valid += 1
                for flag in flags:
                    if v['rej'].get(flag) == 'bad':
                        hit = next((kf for kf in known if kf_match(kf, prop, flag, v['name'], v['fin'], ts[tid])), None)
                        if hit:
                            e = kf_hits.setdefault(hit['id'], [0, hit, None])
                            e[0] += 1
                            if e[2] is None:
                                e[2] = (flag, v, ts[tid], ss.get(tid))
                        elif (flag, v['name']) not in seen:
                            seen.add((flag, v['name']))
                            violations.append((flag, v, ts[tid], ss.get(tid)))
        if clear_replays:
            shutil.rmtree('%s/replays/%s' % (V, prop), ignore_errors=True)
        os.makedirs('%s/replays/%s' % (V, prop), exist_ok=True)

        def dump(path, flag, v, lines, sched, extra=None):
            body = {'property': prop, 'monitor': flag, 'kind': 'conc', 'case': byname.get(v['name']), 'strategy': (sched or {}).get('strategy'),
                    'observed': [json.loads(x) for x in lines], 'tlc_verdict': v}
            body.update(extra or {})
            with open(path, 'w') as f:
                json.dump(body, f, indent=1)

        for flag, v, lines, sched in violations[:50]:
            hh = hashlib.sha256((flag + v['name']).encode()).hexdigest()[:12]
            path = '%s/replays/%s/%s.json' % (V, prop, hh)
            dump(path, flag, v, lines, sched)
            out_lines.append('VIOLATION property=%s replay=%s' % (prop, path))
        for kid, (cnt, kf, ex) in sorted(kf_hits.items()):
            dump('%s/replays/%s/%s.json' % (V, prop, kid), ex[0], ex[1], ex[2], ex[3], {'known_finding': kid})
            out_lines.append('KNOWN-FINDING: property=%s %s [%s; %d schedules]' % (prop, kf['what'], kid, cnt))
        for m in mc:
            if m['violated'] and not m['expected_violation']:
                out_lines.append('MODEL-FINDING property=%s the design model %s/%s violates %s (not an alarm by itself: alarms come only from executions of the real code)' % (prop, m['module'], m['config'], m['violated']))
        qd = None
        if prop == 'C08':
            qd = queue_drift(work, harness, cases, seed)
            if qd['drift']:
                out_lines.append('MODEL-DRIFT property=C08 the lock-level log of the real scheduler queue is no longer a behaviour of the L1 model SchedQueue (%d of %d cases; first: %s)'
                                 % (len(qd['drift']), qd['cases'], qd['drift'][0]['detail'][:300].replace('\n', ' ')))
        if prop == 'C19':
            qd = sink_drift(work, harness, seed, runs=40 if tier == 'quick' else 400)
            if qd['drift']:
                out_lines.append('MODEL-DRIFT property=C19 the lock-level log of the subscriber Observer / StreamController is no longer a behaviour of the L1 design model SinkConc (%d of %d cases; first: %s)'
                                 % (len(qd['drift']), qd['cases'], qd['drift'][0]['detail'][:300].replace('\n', ' ')))
        if prop == 'C11':
            qd = comb_drift(work, harness, seed, runs=40 if tier == 'quick' else 400)
            if qd['drift']:
                out_lines.append('MODEL-DRIFT property=C11 the lock-level log of merge (sink_next / sink_complete, one input per thread) is no longer a behaviour of the L1 design model CombConc (%d of %d cases; first: %s)'
                                 % (len(qd['drift']), qd['cases'], qd['drift'][0]['detail'][:300].replace('\n', ' ')))
        if prop == 'C12':
            qd = subject_drift(work, harness, seed, runs=40 if tier == 'quick' else 400)
            if qd['drift']:
                out_lines.append('MODEL-DRIFT property=C12 the lock-level log of the plain Subject is no longer a behaviour of the L1 design model SubjectConc (%d of %d cases; first: %s)'
                                 % (len(qd['drift']), qd['cases'], qd['drift'][0]['detail'][:300].replace('\n', ' ')))
        runs = sum(c['runs'] for c in per_case) + sum(c['runs'] for c in pc1) + sum(c['runs'] for c in pc2)
        distinct = sum(c['distinct_traces'] for c in per_case)
        nontriv = sum(1 for vs, ts, ss in allv for tid, v in vs.items() if v['events'] >= 4)
        samples = []
        for tid in list(traces)[:2]:
            samples.append({'case': verdicts[tid]['name'] if tid in verdicts else None, 'schedule': scheds.get(tid, {}).get('strategy'),
                            'events': [json.loads(x) for x in traces[tid]][:40], 'tlc_verdict': verdicts.get(tid)})
        evidence = {
            'property_id': prop, 'tier': tier, 'seed': seed, 'level': 'model_checking',
            'coverage': {
                'states': sum(m['distinct'] for m in mc) or 1, 'transitions': sum(m['states'] for m in mc) or 1,
                'traces_validated_against_impl': n_valid, 'samples': samples,
                'evaluations': runs, 'distinct_nontrivial': nontriv,
                'rule': 'each case of the catalogue is executed on the real crate under every schedule with at most %d preemptions (DFS over lock-operation schedule points, '
                        'complete within the bound unless capped) plus seeded random schedules; traces are de-duplicated by visible content; non-trivial = at least 4 visible events' % bound,
                'exhaustive': all(c['exhausted_within_bound'] for c in per_case),
                'design_models_checked_by_tlc': mc, 'lock_level_conformance_with_L1': qd, 'cases': per_case, 'one_preemption_pass': pc1, 'random_cases': pc2, 'monitors': flags,
                'l2_rejections_known': {k: c[0] for k, c in kf_hits.items()}, 'l2_rejections_new': len(violations),
            },
            'assumptions': ['schedule points are the lock / condvar / spawn / sleep operations of the facade: the crate has no atomics and no unsafe code, so these are all inter-thread interactions',
                            'preemption bound %d; short per-thread scripts as listed in lib/conccheck.py' % bound,
                            'std RwLock modelled as writer-preferring (futex implementation); TLC, the TLA+ modules and the facade runtime are trusted'],
            'wall_s': round(time.time() - t0, 1), 'violations': len(violations),
        }
        summary = ('%s %s: %d schedules executed over %d cases, %d distinct traces validated by TLC, design models: %s, %d new violations, %.0fs'
                   % (prop, tier, runs, len(cases), n_valid, ', '.join(('%s/%s inductive%s' % (m['module'], m['config'], ' FAILED: ' + str(m['violated']) if m['violated'] else '')) if m['config'].startswith('apalache') else
                                 ('%s/%s %d states%s' % (m['module'], m['config'], m['distinct'], ' VIOLATES ' + str(m['violated']) if m['violated'] else '')) for m in mc) or '-', len(violations), time.time() - t0))
        if write:
            from seqcheck import write_evidence
            write_evidence(prop, evidence, out_lines, summary)
            return 1 if violations else 0
        return (1 if violations else 0), evidence, out_lines, summary
    finally:
        if not os.environ.get('VERIF_KEEP'):
            shutil.rmtree(work, ignore_errors=True)
