"""./check --selftest : shows that the specifications are bound to the implementation and that the monitors are not vacuous.
  1. recorded executions of the real crate are accepted (no L2 rejection, no L1 drift);
  2. the same executions with ONE observed field corrupted (an item value, a missing terminal, a duplicated terminal, a wrong
     is_subscribed answer) are rejected by TLC at that execution - by the L1 model (drift) and by the L2 monitor that owns the clause;
  3. a concurrent trace with a duplicated terminal callback / a callback after unsubscribe returned is rejected by ConcProps;
  4. the lock logs of the real subscriber Observer / StreamController and of the real plain Subject are accepted by the lock-level
     design models SinkConc / SubjectConc (SinkConcTrace, SubjectConcTrace), and rejected when one lock operation or one
     callback line is removed;
  5. every design model finds, with its "mistake" constant switched on, the violation its header announces (not vacuous)."""
import copy
import json
import os
import shutil
import sys

import conccheck
import seqcheck


def run():
    harness = seqcheck.build_harness()
    work = seqcheck.make_workdir('selftest')
    ok = True
    try:
        stats, sums = seqcheck.run_group(work, harness, 'single1', 3, False, 'st', 7, 600, 0)
        files = [work + '/' + f for f in os.listdir(work) if '.sample' in f and f.endswith('.ndjson')]
        traces = seqcheck.read_traces(files)
        good = seqcheck.validate_traces(work, files, 'good')
        nbad = sum(1 for v in good.values() if v['drift'] or any(v['rej'][p] for p in ('C01', 'C05', 'C06', 'C07', 'REF')))
        print('selftest 1: %d recorded executions validated, %d rejected (must be 0)' % (len(good), nbad))
        ok &= nbad == 0 and len(good) > 50
        # ---- corrupted copies
        muts = []
        nid = 10 ** 9
        for tid, lines in traces.items():
            stims = [x for x in lines if x['ev'] == 'stim']
            cbs = [(i, j) for i, s in enumerate(stims) for j, o in enumerate(s['obs']) if o['o'] == 'cb']
            if not cbs or len(muts) >= 200:
                continue
            for kind in ('value', 'dup_terminal', 'drop', 'issub'):
                l2 = copy.deepcopy(lines)
                st2 = [x for x in l2 if x['ev'] == 'stim']
                i, j = cbs[-1]
                o = st2[i]['obs'][j]
                expect = None
                if kind == 'value' and o['k'] == 'n':
                    o['v'] += 1
                    expect = 'REF'
                elif kind == 'dup_terminal' and o['k'] in ('c', 'e'):
                    st2[i]['obs'].insert(j + 1, dict(o))
                    expect = 'C01'
                elif kind == 'drop' and o['k'] in ('c', 'e'):
                    del st2[i]['obs'][j]
                    expect = 'REF'
                elif kind == 'issub':
                    ans = [(a, b) for a, s in enumerate(st2) for b, q in enumerate(s['obs']) if q['o'] == 'ans']
                    if not ans:
                        continue
                    a, b = ans[-1]
                    st2[a]['obs'][b]['v'] = 1 - st2[a]['obs'][b]['v']
                    expect = 'C05'
                else:
                    continue
                nid += 1
                l2[0]['id'] = nid
                l2[-1]['id'] = nid
                muts.append((nid, kind, expect, l2))
        path = work + '/mut.sample0.ndjson'
        with open(path, 'w') as f:
            for _, _, _, l2 in muts:
                for x in l2:
                    f.write(json.dumps(x, separators=(',', ':')) + '\n')
        res = seqcheck.validate_traces(work, [path], 'mut')
        by = {}
        for nid, kind, expect, _ in muts:
            v = res[nid]
            e = by.setdefault(kind, [0, 0, 0])
            e[0] += 1
            e[1] += 1 if v['drift'] else 0
            e[2] += 1 if v['rej'].get(expect) else 0
        for kind, (n, d, r) in sorted(by.items()):
            print('selftest 2: corruption %-13s %3d executions: %3d rejected by L1 (drift), %3d rejected by the owning L2 monitor' % (kind, n, d, r))
            ok &= d == n
        ok &= by.get('dup_terminal', [0, 0, 0])[2] == by.get('dup_terminal', [1, 0, 0])[0] and by.get('issub', [0, 0, 0])[2] == by.get('issub', [1, 0, 0])[0]
        # ---- concurrent
        for m in os.listdir(seqcheck.SPEC):
            if m.endswith('.tla') and not os.path.exists(work + '/gen/' + m):
                shutil.copy(seqcheck.SPEC + '/' + m, work + '/gen/' + m)
        cases = [c for c in conccheck.catalogue_c05('quick') if c['name'] in ('c05/map/unsub-vs-items', 'c05/direct/unsub-vs-items')] + conccheck.catalogue_c19('quick')[:3]
        per, scheds, cfiles = conccheck.explore(work, harness, cases, 'dfs', 1, 300, 1, 'ct')
        v1, t1 = conccheck.validate(work, cfiles, 'ConcTrace', 'cgood')
        nb = sum(1 for v in v1.values() if v['rej']['C19'] == 'bad' or v['rej']['C05'] == 'bad')
        print('selftest 3: %d concurrent traces validated, %d rejected (must be 0)' % (len(v1), nb))
        ok &= nb == 0 and len(v1) > 10
        out = []
        n19 = n05 = 0
        nid = 2 * 10 ** 9
        for tid, lines in t1.items():
            ev = [json.loads(x) for x in lines]
            term = [i for i, e in enumerate(ev) if e['ev'] == 'cbend' and e['k'] in ('c', 'e')]
            if term and n19 < 20:
                nid += 1
                n19 += 1
                e2 = copy.deepcopy(ev)
                i = term[-1]
                e2[i + 1:i + 1] = [dict(e2[i - 1]), dict(e2[i])]        # the terminal callback runs a second time
                e2[0]['id'] = e2[-1]['id'] = nid
                out.append(('C19', nid, e2))
            ur = [i for i, e in enumerate(ev) if e['ev'] == 'unsubret']
            if ur and n05 < 20:
                nid += 1
                n05 += 1
                e2 = copy.deepcopy(ev)
                t = 7
                late = [dict(e2[ur[0]], ev='emitcall', t=t, src=1, k='n', v=19, u=0), dict(e2[ur[0]], ev='cbstart', t=t, u=1, k='n', v=19),
                        dict(e2[ur[0]], ev='cbend', t=t, u=1, k='n', v=19), dict(e2[ur[0]], ev='emitret', t=t, src=1, k='n', v=19, u=0)]
                e2[-1:-1] = late                                        # an emission that starts after unsubscribe returned is delivered
                e2[0]['id'] = e2[-1]['id'] = nid
                out.append(('C05', nid, e2))
        p2 = work + '/cmut.ndjson'
        with open(p2, 'w') as f:
            for _, _, e2 in out:
                for x in e2:
                    f.write(json.dumps(x, separators=(',', ':')) + '\n')
        v2, _ = conccheck.validate(work, [p2], 'ConcTrace', 'cmut')
        for flag in ('C19', 'C05'):
            ids = [nid for fl, nid, _ in out if fl == flag]
            r = sum(1 for nid in ids if v2[nid]['rej'][flag] == 'bad')
            print('selftest 3: %2d traces with an injected %s violation: %2d rejected by ConcProps' % (len(ids), flag, r))
            ok &= r == len(ids) and len(ids) > 0
        # ---- 4. lock-level conformance: the lock log of the real Observer / StreamController is a behaviour of SinkConc;
        #         with one lock operation removed, or a callback line removed, it is not
        import json as _json
        sd0 = conccheck.sink_drift(work, harness, 1, runs=20)
        print('selftest 4: lock logs of %d cases (%d executions, %d lines) validated against SinkConc: %d cases rejected (must be 0)' % (sd0['cases'], sd0['traces'], sd0['lines'], len(sd0['drift'])))
        ok &= sd0['cases'] >= 5 and not sd0['drift']

        def dropper(ev):
            def f(lines):
                for i, x in enumerate(lines):
                    if _json.loads(x)['ev'] == ev:
                        return lines[:i] + lines[i + 1:]
                return None
            return f
        for ev in ('W_E', 'cb', 'R_C'):
            sd1 = conccheck.sink_drift(work, harness, 1, runs=20, corrupt=dropper(ev), tagp='sdc_' + ev.lower())
            print('selftest 4: the same logs with the first %-3s line removed: %d of %d cases rejected by SinkConcTrace' % (ev, len(sd1['drift']), sd1['cases']))
            ok &= sd1['cases'] > 0 and len(sd1['drift']) == sd1['cases']
        sj0 = conccheck.subject_drift(work, harness, 1, runs=20)
        print('selftest 4: lock logs of %d plain-Subject cases (%d executions, %d lines) validated against SubjectConc: %d cases rejected (must be 0)' % (sj0['cases'], sj0['traces'], sj0['lines'], len(sj0['drift'])))
        ok &= sj0['cases'] >= 3 and not sj0['drift']
        for ev in ('snap', 'try', 'reg', 'clear', 'cb'):
            sj1 = conccheck.subject_drift(work, harness, 1, runs=20, corrupt=dropper(ev), tagp='sjc_' + ev)
            print('selftest 4: the same logs with the first %-5s line removed: %d of %d cases rejected by SubjectConcTrace' % (ev, len(sj1['drift']), sj1['cases']))
            ok &= sj1['cases'] > 0 and len(sj1['drift']) == sj1['cases']
        cd0 = conccheck.comb_drift(work, harness, 1, runs=20)
        print('selftest 4: lock logs of %d merge cases (%d executions, %d lines) validated against CombConc: %d cases rejected (must be 0)' % (cd0['cases'], cd0['traces'], cd0['lines'], len(cd0['drift'])))
        ok &= cd0['cases'] >= 3 and not cd0['drift']
        for ev in ('rm', 'chk', 'cb'):
            cd1 = conccheck.comb_drift(work, harness, 1, runs=20, corrupt=dropper(ev), tagp='cdc_' + ev)
            print('selftest 4: the same logs with the first %-3s line removed: %d of %d cases rejected by CombConcTrace' % (ev, len(cd1['drift']), cd1['cases']))
            ok &= cd1['cases'] > 0 and len(cd1['drift']) == cd1['cases']
        # ---- 5. the design models are not vacuous: each one has a constant that switches in a known (mostly seeded) mistake, and
        #         TLC must find the violation the model's header announces
        mutants = [
            ('SinkConc', 'NThreads = 2\n MaxCalls = 2\n ArbiterFix = FALSE\n WithFinalize = FALSE', 'INVARIANTS AtMostOneTerminal', 'AtMostOneTerminal'),
            ('CombConc', 'NInputs = 2\n NItems = 1\n Amb = FALSE\n AtomicRemove = FALSE\n AtomicElect = TRUE', 'INVARIANTS ExactlyOneComplete AtMostOneComplete', 'Complete'),
            ('CombConc', 'NInputs = 2\n NItems = 1\n Amb = TRUE\n AtomicRemove = TRUE\n AtomicElect = FALSE', 'INVARIANTS OneWinner', 'OneWinner'),
            ('ToVec', 'NItems = 1\n Fails = FALSE\n WakerFirst = TRUE', 'PROPERTY EventuallyReady', 'EventuallyReady'),
            ('TimedOps', 'D = 100\n Gaps = {40, 110}\n MaxEvents = 2\n CancelOnEnd = FALSE\n ArmAfterEnd = FALSE', 'INVARIANTS ExitWithinOnePeriod', 'ExitWithinOnePeriod'),
            ('TimedOps', 'D = 100\n Gaps = {40, 110}\n MaxEvents = 2\n CancelOnEnd = TRUE\n ArmAfterEnd = TRUE', 'INVARIANTS ExitWithinOnePeriod', 'ExitWithinOnePeriod'),
            ('ObserveOn', 'NItems = 2\n Ending = "e"\n WithUnsub = FALSE\n ErrorDirect = TRUE\n Feedback = FALSE\n InlineFromWorker = FALSE', 'INVARIANTS OrderOK OnWorker', 'O'),
            ('ObserveOn', 'NItems = 2\n Ending = "c"\n WithUnsub = FALSE\n ErrorDirect = FALSE\n Feedback = TRUE\n InlineFromWorker = TRUE', 'INVARIANTS NeverNested', 'NeverNested'),
            ('SubscribeOn', 'NItems = 2\n Completes = FALSE\n WithUnsub = TRUE\n HookInJob = TRUE', 'PROPERTY WorkerExits', 'WorkerExits'),
            ('Debounce', 'D = 100\n Gaps = {40, 260}\n MaxEvents = 3\n ReadNotTake = TRUE\n Feedback = FALSE\n HoldLockWhileDelivering = FALSE', 'INVARIANTS InOrderNoneTwice', 'InOrderNoneTwice'),
            ('Debounce', 'D = 100\n Gaps = {40, 260}\n MaxEvents = 2\n ReadNotTake = FALSE\n Feedback = TRUE\n HoldLockWhileDelivering = TRUE', 'INVARIANTS NeverStuck', 'NeverStuck'),
            ('SampleConc', 'NItems = 2\n NTicks = 2\n Completes = TRUE\n ReadNotTake = TRUE\n TwoStepTake = FALSE', 'INVARIANTS InOrderNoneTwice', 'InOrderNoneTwice'),
            ('SampleConc', 'NItems = 2\n NTicks = 2\n Completes = TRUE\n ReadNotTake = FALSE\n TwoStepTake = TRUE', 'INVARIANTS FreshIsInSlot', 'FreshIsInSlot'),
            ('TimedSources', 'Kind = "interval"\n D = 100\n UGrid = {55, 175, 250}\n Horizon = 450\n Gaps = {40, 90, 260}\n MaxEvents = 2\n EmitThenSleep = TRUE\n NoPoll = FALSE', 'INVARIANTS IntervalExact', 'IntervalExact'),
            ('TimedSources', 'Kind = "delay"\n D = 100\n UGrid = {55, 175, 250}\n Horizon = 450\n Gaps = {40, 90, 260}\n MaxEvents = 2\n EmitThenSleep = TRUE\n NoPoll = FALSE', 'INVARIANTS DelayExact', 'DelayExact'),
            ('TimedSources', 'Kind = "interval"\n D = 100\n UGrid = {55, 175, 250}\n Horizon = 450\n Gaps = {40, 90, 260}\n MaxEvents = 2\n EmitThenSleep = FALSE\n NoPoll = TRUE', 'INVARIANTS ExitWithinOnePeriod', 'ExitWithinOnePeriod'),
            ('RefCountConc', 'Leavers = {1, 2}\n Stayers = {3}\n Recheck = FALSE', 'INVARIANTS PresentMeansConnected', 'PresentMeansConnected'),
            ('ZipConc', 'NInputs = 2\n NItems = 2\n EmitUnderLock = FALSE', 'INVARIANTS RowsInOrder', 'RowsInOrder'),
            ('SubjectConc', 'Kind = "replay"\n NValues = 2\n WithUnsub = FALSE', 'INVARIANTS NoDup', 'NoDup'),
        ]
        import subprocess, re as _re
        os.makedirs(work + '/gen', exist_ok=True)
        for m in os.listdir(seqcheck.SPEC):
            if m.endswith('.tla') and not os.path.exists(work + '/gen/' + m):
                shutil.copy(seqcheck.SPEC + '/' + m, work + '/gen/' + m)
        found = 0
        for i, (mod, consts, props, want) in enumerate(mutants):
            cfg = '%s/gen/mut%d.cfg' % (work, i)
            with open(cfg, 'w') as f:
                f.write('SPECIFICATION Spec\nCONSTANTS %s\n%s\nCHECK_DEADLOCK FALSE\n' % (consts, props))
            r = subprocess.run(['timeout', '300'] + seqcheck.tlc_cmd(4, '%s/md-mut%d' % (work, i), cfg, mod + '.tla'), cwd=work + '/gen', capture_output=True, text=True)
            hit = _re.search(r'(Invariant (\S+) is violated|Temporal property (\S+) was violated|Temporal properties were violated)', r.stdout)
            okm = bool(hit) and (want in hit.group(0) or 'Temporal' in hit.group(0))
            found += okm
            if not okm:
                print('selftest 5: %s with %s: TLC did NOT report the expected violation (%s)' % (mod, consts.replace('\n', ','), want))
        print('selftest 5: %d of %d design-model mutants (the mistake each model names in its header) are caught by TLC' % (found, len(mutants)))
        ok &= found == len(mutants)
        print('SELFTEST ' + ('ok' if ok else 'FAILED'))
        return 0 if ok else 1
    finally:
        shutil.rmtree(work, ignore_errors=True)
