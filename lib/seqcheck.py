"""Sequential properties (C01-C07 single-thread part, C10, C13, C14, C17): model checking of the L1 specification
against the L2 monitors with TLC, replay of every enumerated history on the real crate (spec -> impl), and TLC trace
validation of recorded executions (impl -> spec).  See DESIGN.md sections 3, 5, 6, 8."""
import hashlib
import json
import os
import re
import shutil
import subprocess
import sys
import threading
import time

V = os.path.dirname(os.path.dirname(os.path.abspath(__file__)))      # the directory this framework lives in (normally /verif)
SPEC = V + '/spec'
SEQ_MODULES = ['RxRef.tla', 'RxProps.tla', 'RxStim.tla', 'RxSeqMC.tla', 'RxSeqTrace.tla']
NPROC = int(os.environ.get('VERIF_JOBS', '8'))


class ToolError(Exception):
    pass


def build_harness():
    r = subprocess.run(['sh', V + '/tools/build.sh'], capture_output=True, text=True)
    if r.returncode != 0:
        sys.stderr.write(r.stderr[-4000:])
        raise ToolError('harness build failed')
    return r.stdout.strip().splitlines()[-1]


def make_workdir(tag):
    d = '/tmp/arxv-%s-%d' % (tag, os.getpid())
    shutil.rmtree(d, ignore_errors=True)
    os.makedirs(d + '/gen')
    r = subprocess.run([sys.executable, V + '/tools/defun.py', SPEC + '/RxSeq.tla', d + '/gen/RxSeq.tla'], capture_output=True, text=True)
    if r.returncode != 0:
        raise ToolError('defun failed: ' + r.stderr)
    for m in os.listdir(SPEC):
        if m.endswith('.tla') and m != 'RxSeq.tla':
            shutil.copy(SPEC + '/' + m, d + '/gen/' + m)
    return d


def tlc_cmd(workers, metadir, cfg, module, extra=None):
    return ['tlc', '-workers', str(workers), '-metadir', metadir, '-cleanup', '-noGenerateSpecTE'] + (extra or []) + ['-config', cfg, module]


def run_group(work, harness, group, maxstim, rev, tag, sample_every, timeout_s, id_base):
    """TLC enumerates every history of the group; the lines are dealt round-robin to NPROC harness processes."""
    gen = work + '/gen'
    cfg = '%s/%s.cfg' % (gen, tag)
    with open(cfg, 'w') as f:
        f.write('SPECIFICATION Spec\nCONSTANTS MaxStim = %d\n h_rev = %s\n Group = "%s"\nINVARIANT EmitCases\nCHECK_DEADLOCK FALSE\n'
                % (maxstim, 'TRUE' if rev else 'FALSE', group))
    procs = []
    for k in range(NPROC):
        out = open('%s/%s.sum%d.json' % (work, tag, k), 'w')
        p = subprocess.Popen([harness, 'seq-replay', '--diff-out', '%s/%s.diff%d.ndjson' % (work, tag, k),
                              '--sample-out', '%s/%s.sample%d.ndjson' % (work, tag, k), '--sample-every', str(sample_every),
                              '--bad-out', '%s/%s.bad%d.ndjson' % (work, tag, k),
                              '--id-base', str(id_base + k * 10_000_000)],
                             stdin=subprocess.PIPE, stdout=out, stderr=subprocess.PIPE)
        procs.append((p, out))
    env = dict(os.environ)
    env['JAVA_TOOL_OPTIONS'] = '-Xss512m -Xmx12g'
    t0 = time.time()
    tlc = subprocess.Popen(['timeout', str(timeout_s)] + tlc_cmd(NPROC, '%s/md-%s' % (work, tag), cfg, 'RxSeqMC.tla'),
                           cwd=gen, stdout=subprocess.PIPE, stderr=subprocess.STDOUT, env=env)
    stats = {'states': 0, 'distinct': 0, 'depth': 0, 'ok': False, 'log': []}
    n = 0
    for raw in tlc.stdout:
        if raw.startswith(b'"{'):
            p = procs[n % NPROC][0]
            try:
                p.stdin.write(raw)
            except BrokenPipeError:
                raise ToolError('harness process died: ' + p.stderr.read().decode()[-2000:])
            n += 1
        else:
            line = raw.decode(errors='replace').rstrip()
            m = re.match(r'(\d+) states generated, (\d+) distinct states found', line)
            if m:
                stats['states'], stats['distinct'] = int(m.group(1)), int(m.group(2))
            m = re.match(r'The depth of the complete state graph search is (\d+)', line)
            if m:
                stats['depth'] = int(m.group(1))
            if 'Model checking completed. No error has been found.' in line:
                stats['ok'] = True
            if 'rror' in line or 'xception' in line:
                stats['log'].append(line)
    tlc.wait()
    stats['tlc_s'] = round(time.time() - t0, 1)
    stats['cases'] = n
    summaries = []
    for p, out in procs:
        p.stdin.close()
    for p, out in procs:
        p.wait()
        out.close()
        err = p.stderr.read().decode()
        if p.returncode != 0:
            raise ToolError('harness seq-replay failed (%d): %s' % (p.returncode, err[-2000:]))
    for k in range(NPROC):
        with open('%s/%s.sum%d.json' % (work, tag, k)) as f:
            txt = f.read().strip()
            if txt:
                summaries.append(json.loads(txt.splitlines()[-1]))
    if not stats['ok']:
        raise ToolError('TLC did not complete for %s: rc=%s %s' % (tag, tlc.returncode, stats['log'][:5]))
    stats['total_s'] = round(time.time() - t0, 1)
    return stats, summaries


def validate_traces(work, files, tag):
    """TLC trace validation (RxSeqTrace) of recorded executions; returns {trace id: {'rej': {...}, 'drift': n}}."""
    files = [f for f in files if os.path.exists(f) and os.path.getsize(f) > 0]
    if not files:
        return {}
    # split the concatenated traces into chunks of <= CHUNK lines (cut only at `reset` lines); TLC's per-level overhead grows
    # with the depth of the (single) behaviour, so many short files validate much faster than one long one
    CHUNK = 3000
    chunks = [[]]
    for fn in files:
        with open(fn) as f:
            for line in f:
                if '"ev":"reset"' in line and len(chunks[-1]) >= CHUNK:
                    chunks.append([])
                chunks[-1].append(line)
    gen = work + '/gen'
    cfg = gen + '/trace.cfg'
    with open(cfg, 'w') as f:
        f.write('SPECIFICATION Spec\nCONSTANTS h_rev = FALSE\nPOSTCONDITION Consumed\nCHECK_DEADLOCK FALSE\n')
    results = {}
    errors = []

    def one(i):
        if not chunks[i]:
            return
        path = '%s/%s.tv%d.ndjson' % (work, tag, i)
        with open(path, 'w') as f:
            f.writelines(chunks[i])
        env = dict(os.environ)
        env['TRACE'] = path
        env['JAVA_TOOL_OPTIONS'] = '-Xss1g -Xmx3g'
        r = subprocess.run(['timeout', '1500'] + tlc_cmd(1, '%s/mdtv-%s-%d' % (work, tag, i), cfg, 'RxSeqTrace.tla'),
                           cwd=gen, capture_output=True, text=True, env=env)
        ok = 'Model checking completed. No error has been found.' in r.stdout
        for line in r.stdout.splitlines():
            if line.startswith('"{'):
                v = json.loads(json.loads(line))
                results[v['trace']] = v
        if not ok:
            errors.append(r.stdout[-3000:])

    idx = list(range(len(chunks)))
    lock = threading.Lock()

    def worker():
        while True:
            with lock:
                if not idx:
                    return
                i = idx.pop()
            one(i)

    ths = [threading.Thread(target=worker) for _ in range(NPROC)]
    for t in ths:
        t.start()
    for t in ths:
        t.join()
    if errors:
        raise ToolError('trace validation did not complete: ' + errors[0])
    return results


def read_traces(files):
    """{trace id: [json lines]} of recorded executions"""
    out = {}
    cur = None
    for fn in files:
        if not os.path.exists(fn):
            continue
        with open(fn) as f:
            for line in f:
                v = json.loads(line)
                if v['ev'] == 'reset':
                    cur = v['id']
                    out[cur] = []
                out[cur].append(v)
    return out


# ------------------------------------------------------------------------------------------ known findings
def term_ops(t, acc=None):
    acc = acc if acc is not None else []
    acc.append(t['op'])
    for x in t.get('in', []):
        term_ops(x, acc)
    return acc


def sig(t):
    if not t.get('in'):
        return t['op']
    return '%s(%s%s)<%s>' % (t['op'], t['a'], t['f'], ','.join(sig(x) for x in t['in']))


def ill_formed(case_or_reset, stims):
    def bad_script(t):
        if t['op'] == 'cold':
            for sc in t['scripts']:
                for i, e in enumerate(sc):
                    if e['k'] in ('e', 'c') and i < len(sc) - 1:
                        return True
        return any(bad_script(x) for x in t.get('in', []))
    if bad_script(case_or_reset['root']):
        return True
    ended = set()
    for s in stims:
        st = s['st']
        if st['k'] == 'emit':
            key = (st['a'], st['b'])
            if key in ended:
                return True
            if st['e'] in ('e', 'c'):
                ended.add(key)
    return False


def matches(kf, prop, flag, root, cfg, stims):
    m = kf['match']
    if kf['property'] != prop or 'tok_op_any' in m or m.get('kind') == 'conc':      # (item-token / concurrent findings have their own matchers)
        return False
    if 'flag' in m and m['flag'] != flag:
        return False
    ops = term_ops(root)
    for c in cfg.get('conn', []):
        ops += term_ops(c['term'])
    if 'ops_any' in m and not any(o in ops for o in m['ops_any']):
        return False
    if 'root_op' in m and root['op'] not in m['root_op']:
        return False
    if 'ill_formed' in m and m['ill_formed'] != ill_formed({'root': root}, stims):
        return False
    if 'sbj_kind_any' in m and not ('subject' in ops and any(k in m['sbj_kind_any'] for k in cfg.get('sbj', []))):
        return False
    if 'conn_kind_any' in m and not any(c['kind'] in m['conn_kind_any'] for c in cfg.get('conn', [])):
        return False
    if 'conn_src_any' in m and not any(c['term']['op'] in m['conn_src_any'] for c in cfg.get('conn', [])):
        return False
    if 'stim_seq' in m:
        want = list(m['stim_seq'])
        for x in stims:
            st = x['st']
            tok = st['k'] + (':' + st['e'] if st.get('e') else '')
            if want and (want[0] == tok or want[0] == st['k']):
                want.pop(0)
        if want:
            return False
    if 'stuck_site_any' in m and not any(any(x in s.get('site', '') for x in m['stuck_site_any']) for s in stims if s.get('fin') == 'stuck'):
        return False
    if 'fin_any' in m and not any(s.get('fin') in m['fin_any'] for s in stims):
        return False
    if 'react_any' in m and not any(cfg.get('react', {}).get(k, 0) for k in m['react_any']):
        return False
    if 'ends_by_any' in m:
        kinds = set()
        for s in stims:
            for e in s.get('obs', []):
                if e['o'] == 'cb' and e['k'] in ('e', 'c'):
                    kinds.add('terminal')
                if e['o'] == 'mark':
                    kinds.add('unsubscribe')
        if not (kinds & set(m['ends_by_any'])):
            return False
    if 'min_ops' in m and len([o for o in ops if o not in ('probe', 'cold', 'from_iter', 'just', 'subject')]) < m['min_ops']:
        return False
    return True


def load_known():
    p = V + '/known_findings.json'
    if not os.path.exists(p):
        return []
    return [k for k in json.load(open(p)).get('findings', []) if 'match' in k]


# ------------------------------------------------------------------------------------------ the check
def write_evidence(prop, evidence, lines, summary):
    os.makedirs(V + '/evidence', exist_ok=True)
    with open('%s/evidence/%s.json' % (V, prop), 'w') as f:
        json.dump(evidence, f, indent=1)
    for l in lines:
        print(l)
    print(summary)


def run_tok(work, harness):
    """C17 'any emitted item': the item-token runs (harness tok-all) judged by TLC (spec/TokTrace.tla); returns the verdict lines"""
    path = work + '/tok.ndjson'
    r = subprocess.run(['timeout', '600', harness, 'tok-all'], capture_output=True, text=True)
    if r.returncode != 0:
        raise ToolError('harness tok-all failed: ' + (r.stderr or r.stdout)[-1500:])
    with open(path, 'w') as f:
        f.write('\n'.join(x for x in r.stdout.splitlines() if x.startswith('{')) + '\n')
    gen = work + '/gen'
    cfg = gen + '/tok.cfg'
    with open(cfg, 'w') as f:
        f.write('SPECIFICATION Spec\nPOSTCONDITION Consumed\nCHECK_DEADLOCK FALSE\n')
    env = dict(os.environ)
    env['TRACE'] = path
    env['JAVA_TOOL_OPTIONS'] = '-Xss512m -Xmx2g'
    rr = subprocess.run(['timeout', '600'] + tlc_cmd(1, work + '/md-tok', cfg, 'TokTrace.tla'), cwd=gen, capture_output=True, text=True, env=env)
    if 'Model checking completed. No error has been found.' not in rr.stdout:
        raise ToolError('TLC failed on TokTrace: ' + rr.stdout[-1200:])
    out = []
    for line in rr.stdout.splitlines():
        m = re.match(r'^"(\{.*\})"$', line.strip())
        if m:
            out.append(json.loads(m.group(1).replace('\\"', '"')))
    return out


def run_fuzz(work, harness, n, seed, ill, hot=False):
    """impl -> spec beyond the enumerated groups: random pipelines (depth 2..5 over the whole sequential operator table) with
    adaptively chosen stimuli are executed on the real crate; every trace goes to TLC."""
    procs = []
    for k in range(NPROC):
        cmd = [harness, 'seq-fuzz', '--n', str(n), '--seed', str(seed), '--shard', str(k), '--of', str(NPROC), '--out', '%s/fuzz.fz%d.ndjson' % (work, k)]
        if ill:
            cmd.append('--ill')
        if hot:          # long random call sequences on a subject / a connectable over a hot source (C10 / C13)
            cmd += ['--hot', '1']
        procs.append(subprocess.Popen(cmd, stdout=subprocess.PIPE, stderr=subprocess.PIPE, text=True))
    tot = {'cases': 0, 'nontrivial': 0, 'ops': {}}
    for p in procs:
        out, err = p.communicate()
        if p.returncode != 0:
            raise ToolError('harness seq-fuzz failed: ' + err[-2000:])
        v = json.loads(out.strip().splitlines()[-1])
        tot['cases'] += v['cases']
        tot['nontrivial'] += v['nontrivial']
        for o, c in v['ops'].items():
            tot['ops'][o] = tot['ops'].get(o, 0) + c
    return tot


def run_seq_check(prop, tier, flags, plan, seed, design_ref, extra_assumptions=None, write=True, clear_replays=True, fuzz=0, fuzz_ill=False, fuzz_hot=False):
    """plan: list of (group, maxstim, revs).  flags: the monitor flags of RxProps.Judge that decide `prop`."""
    t0 = time.time()
    harness = build_harness()
    work = make_workdir(prop)
    known = load_known()
    try:
        tot = {'states': 0, 'distinct': 0, 'cases': 0, 'agree': 0, 'differ': 0, 'nontrivial': 0, 'nonok_confirmed': 0}
        ops = {}
        groups = []
        l2bad = []       # (flag, example case) where the crate agrees with a model history that L2 rejects
        diffs = []
        idb = 0
        for gi, (group, maxstim, revs) in enumerate(plan):
            for rev in revs:
                tag = 'g%d_%s_%d_%s' % (gi, group, maxstim, 'r' if rev else 'f')
                idb += 100_000_000
                stats, sums = run_group(work, harness, group, maxstim, rev, tag, 40 if tier == 'quick' else 400, 1500 if tier == 'quick' else 7200, idb)
                g = {'group': group, 'max_stimuli': maxstim, 'map_order_reversed': rev, 'states': stats['states'], 'distinct_states': stats['distinct'],
                     'depth': stats['depth'], 'cases': stats['cases'], 'tlc_s': stats['tlc_s'], 'wall_s': stats['total_s']}
                groups.append(g)
                tot['states'] += stats['distinct']
                tot['transitions'] = tot.get('transitions', 0) + stats['states']
                for s in sums:
                    for k in ('cases', 'agree', 'differ', 'nontrivial', 'nonok_confirmed'):
                        tot[k] += s[k]
                    for o, c in s['ops'].items():
                        ops[o] = ops.get(o, 0) + c
                    for b in s['l2bad']:
                        if b['prop'] in flags:
                            l2bad.append((b['prop'], b['count'], b['case'], tag))
                    for d in s['diffs']:
                        d['tag'] = tag
                        diffs.append(d)
        fz = run_fuzz(work, harness, fuzz, seed, fuzz_ill, fuzz_hot) if fuzz else None
        # ---- impl -> spec: TLC judges recorded executions: all disagreeing ones, the model-rejected ones, a sample, and the random pipelines
        tv_files = [work + '/' + f for f in os.listdir(work) if re.search(r'\.(diff|bad|sample|fz)\d+\.ndjson$', f)]
        verdicts = validate_traces(work, tv_files, 'all')
        traces = read_traces(tv_files)
        out_lines = []
        violations = []
        kf_hits = {}
        drift = 0
        seen_v = set()
        for tid, v in sorted(verdicts.items()):
            lines = traces.get(tid)
            if not lines:
                continue
            reset = lines[0]
            stims = [x for x in lines if x['ev'] == 'stim']
            if v['drift']:
                drift += 1
            for flag in flags:
                if v['rej'].get(flag, 0):
                    hit = None
                    for kf in known:
                        if matches(kf, prop, flag, reset['root'], reset['cfg'], stims):
                            hit = kf
                            break
                    # a known finding is behaviour the as-is model (L1) predicts; an execution that L2 rejects AND that deviates
                    # from L1 is something else happening in the same place, and is reported
                    if hit and v['drift']:
                        hit = None
                    if hit:
                        e = kf_hits.setdefault(hit['id'], [0, hit, None])
                        e[0] += 1
                        if e[2] is None:
                            e[2] = (flag, v, reset, stims)
                    else:
                        key = (flag, json.dumps(reset['root'], sort_keys=True), json.dumps(reset['cfg'], sort_keys=True))
                        if key in seen_v:
                            continue
                        seen_v.add(key)
                        violations.append((flag, v, reset, stims))
        if clear_replays:
            shutil.rmtree('%s/replays/%s' % (V, prop), ignore_errors=True)
        os.makedirs('%s/replays/%s' % (V, prop), exist_ok=True)
        for flag, v, reset, stims in violations[:50]:
            case = {'root': reset['root'], 'cfg': reset['cfg'], 'rev': reset['rev'], 'stims': [{'st': s['st']} for s in stims]}
            body = {'property': prop, 'monitor': flag, 'rejected_at_line': v['rej'][flag], 'case': case, 'observed': stims, 'kind': 'seq'}
            hh = hashlib.sha256(json.dumps(body, sort_keys=True).encode()).hexdigest()[:12]
            path = '%s/replays/%s/%s.json' % (V, prop, hh)
            with open(path, 'w') as f:
                json.dump(body, f, indent=1)
            out_lines.append('VIOLATION property=%s replay=%s' % (prop, path))
        # compact inventory of every new violation (only the first 50 get a replay file)
        vsum = {}
        for flag, v, reset, stims in violations:
            fins = sorted(set(x['fin'] for x in stims if x['fin'] != 'ok'))
            key = '%s %s sbj=%s conn=%s fin=%s' % (flag, sig(reset['root']), ','.join(reset['cfg'].get('sbj', [])) if 'subject' in term_ops(reset['root']) else '-',
                                                  ','.join(c['kind'] + ':' + sig(c['term']) for c in reset['cfg'].get('conn', [])) or '-', ','.join(fins) or '-')
            vsum[key] = vsum.get(key, 0) + 1
        if os.environ.get('VERIF_VERBOSE'):
            for k2, c2 in sorted(vsum.items()):
                print('  new-violation-class %d x %s' % (c2, k2))
        for kid, (cnt, kf, ex) in sorted(kf_hits.items()):
            flag, v, reset, stims = ex
            with open('%s/replays/%s/%s.json' % (V, prop, kid), 'w') as f:
                json.dump({'property': prop, 'monitor': flag, 'known_finding': kid, 'rejected_at_line': v['rej'][flag], 'kind': 'seq',
                           'case': {'root': reset['root'], 'cfg': reset['cfg'], 'rev': reset['rev'], 'stims': [{'st': x['st']} for x in stims]}, 'observed': stims}, f, indent=1)
            out_lines.append('KNOWN-FINDING: property=%s %s [%s; %d executions]' % (prop, kf['what'], kid, cnt))
        if drift:
            out_lines.append('MODEL-DRIFT property=%s %d recorded executions are accepted/rejected by L2 as reported but differ from the L1 model (TLC exhaustive result no longer transfers)' % (prop, drift))
        tok = None
        if prop == 'C17':
            # "any emitted item": items that carry tokens, every item-holding operator x the three ways of ending
            tv = run_tok(work, harness)
            tok = {'runs': len(tv), 'operators': sorted(set(x['op'] for x in tv)), 'rejected': [x for x in tv if x['verdict'] != 'ok']}
            seen_tok = set()
            for x in tok['rejected']:
                kf = next((k for k in known if k['property'] == 'C17' and x['op'] in k['match'].get('tok_op_any', [])), None)
                if kf:
                    if kf['id'] not in seen_tok:
                        seen_tok.add(kf['id'])
                        with open('%s/replays/%s/%s.json' % (V, prop, kf['id']), 'w') as f:
                            json.dump({'property': prop, 'monitor': 'C17', 'known_finding': kf['id'], 'kind': 'tok', 'op': x['op'], 'ending': x['ending'], 'observed': x}, f, indent=1)
                        out_lines.append('KNOWN-FINDING: property=%s %s [%s; %d runs]' % (prop, kf['what'], kf['id'], sum(1 for y in tok['rejected'] if y['op'] in kf['match'].get('tok_op_any', []))))
                else:
                    hh = hashlib.sha256(('tok' + x['op'] + x['ending']).encode()).hexdigest()[:12]
                    path = '%s/replays/%s/%s.json' % (V, prop, hh)
                    with open(path, 'w') as f:
                        json.dump({'property': prop, 'monitor': 'C17', 'kind': 'tok', 'op': x['op'], 'ending': x['ending'], 'observed': x}, f, indent=1)
                    out_lines.append('VIOLATION property=%s replay=%s' % (prop, path))
                    violations.append(('C17', x, None, None))
        samples = []
        for tid in list(traces)[:3]:
            samples.append({'pipeline': traces[tid][0]['root'], 'stimuli_and_observations': [{'st': x['st'], 'obs': x['obs'], 'fin': x['fin']} for x in traces[tid] if x['ev'] == 'stim'],
                            'tlc_verdict': verdicts.get(tid)})
        evidence = {
            'property_id': prop, 'tier': tier, 'seed': seed, 'level': 'model_checking',
            'coverage': {
                'states': tot['states'], 'transitions': tot.get('transitions', 0),
                'traces_validated_against_impl': len(verdicts),
                'samples': samples,
                'evaluations': tot['cases'], 'distinct_nontrivial': tot['nontrivial'],
                'rule': 'TLC enumerates every history of <= max_stimuli harness stimuli over every pipeline of each group (groups below); each maximal history is one case, '
                        'replayed on the real crate and compared event by event with the L1 model; distinct by construction (distinct TLC states); non-trivial = at least one subscriber callback fired',
                'exhaustive': True, 'groups': groups,
                'cases_agreeing_with_L1_model': tot['agree'], 'cases_differing_from_L1_model': tot['differ'],
                'predicted_stuck_or_budget_verdicts_confirmed': tot['nonok_confirmed'],
                'operators_exercised': ops, 'monitors': flags,
                'random_pipelines': fz, 'item_token_runs': tok,
                'l2_rejections_known': {k: c[0] for k, c in kf_hits.items()}, 'l2_rejections_new': len(violations), 'new_violation_classes': vsum, 'model_drift_traces': drift,
            },
            'assumptions': ['bounded: histories of at most max_stimuli stimuli, items from {0,1,2}, parameters as listed in spec/RxSeqMC.tla',
                            'the facade (rt/arx_vstd) behaves like std::sync / std::thread for a single logical thread',
                            'TLC, the TLA+ modules under spec/, and the harness interpreter rt/harness/src/term.rs are trusted'] + (extra_assumptions or []),
            'wall_s': round(time.time() - t0, 1), 'violations': len(violations),
        }
        summary = ('%s %s: %d states, %d cases replayed (%d agree with L1, %d differ), %d traces validated by TLC, %d new violations, %.0fs'
                   % (prop, tier, tot['states'], tot['cases'], tot['agree'], tot['differ'], len(verdicts), len(violations), time.time() - t0))
        if write:
            write_evidence(prop, evidence, out_lines, summary)
            return 1 if violations else 0
        return (1 if violations else 0), evidence, out_lines, summary
    finally:
        if not os.environ.get('VERIF_KEEP'):
            shutil.rmtree(work, ignore_errors=True)
