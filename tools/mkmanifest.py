#!/usr/bin/env python3
"""Regenerates /verif/MANIFEST.json from the table below (kept in one place so it stays valid)."""
import json
NOTE = ("Bounded: histories of <= 3-5 harness stimuli (sub / emit / unsub / query / subject call / connect), items {0,1,2}, operator parameters and "
        "function families as listed in spec/RxSeqMC.tla. Trusted: TLC, the TLA+ modules under spec/, the std facade rt/arx_vstd, the harness term interpreter.")
TECH = ("explicit TLA+ spec: L1 big-step heap model RxSeq (one operator per Rust function) model-checked by TLC against the L2 monitors RxProps/RxRef; "
        "every TLC-enumerated history replayed on the real crate (spec->impl); recorded executions judged by TLC trace validation RxSeqTrace against L2 (alarm) and L1 (drift)")
SEQ = {
 'C01': ("TLC enumerates every history (pipeline x ill-formed source scripts x stimuli) of the implementation-shaped model and evaluates the observer-contract monitor on each; every history is replayed on the real crate and must agree event by event; executions that differ or that the monitor rejects are judged by TLC trace validation", '6 C01'),
 'C02': ("as C01, with the definitional semantics RxRef (timed-trace function of every single-source operator / creation function) as the L2 oracle, compared per stimulus", '6 C02'),
 'C03': ("as C02 for the combining operators over 1-3 hot/cold inputs and all sequential interleavings of their scripts (RxRef folds the arrival sequence)", '6 C03'),
 'C04': ("as C02 for error propagation (payload identity through every operator), retry / retry_when / on_error_resume_next over sources whose k-th subscription behaves differently, materialize/dematerialize", '6 C04'),
 'C05': ("as C01 with the unsubscribe monitor: nothing whose emission started after unsubscribe() returned is delivered, second unsubscribe / unsubscribe after terminal is a no-op, is_subscribed() follows the subscription's life; unsubscribe issued at every position, also from inside the subscriber's callback (single-thread part; the cross-thread part is decided with C19's machinery)", '6 C05'),
 'C06': ("as C01 with the teardown monitor: once the subscription ended every instrumented source sees is_subscribed()==false at its next attempt, no subject keeps an observer, endless producers stop", '6 C06'),
 'C07': ("single-thread part: as C01 with the verdict monitor (every stimulus returns: no self-deadlock, no exhausted step budget) over every group, plus the re-entrancy matrix (every operator over every subject type x subscriber callbacks that unsubscribe themselves / emit into / subscribe to the subject they are called from); the L1 model predicts each same-thread deadlock through its held-lock stack and the runtime confirms it. Multi-thread part: a catalogue of 57 (quick) concurrent scenarios - every operator that owns shared state fed by two emitters with a subscribing and an unsubscribing thread (4 threads), the racing-terminal / conservation / subject / scheduler / hand-off cases of C19, C11, C12, C08, C09, C05 - is executed under every schedule within the preemption bound; a run in which a thread is blocked forever on a lock (or the step budget is exhausted) is rejected by TLC's trace validation; TLC's deadlock check runs on the lock-level model SchedQueue", '6 C07'),
 'C10': ("as C01 with the four subject automata of the statement as L2 (per-observer deliveries per call, hand-over of history to late joiners, registered-observer count after every call), all call sequences over {subscribe_i, unsubscribe_i, next, error, complete}", '6 C10'),
 'C13': ("as C01 with the connectable monitor: the source is subscribed only at connect / first subscriber, never twice at a time, released by disconnect / last leaver (source sees is_subscribed()==false), every present subscriber sees the same items, replay hands every subscriber the whole sequence once", '6 C13'),
 'C14': ("as C02 with 2 subscribers of the same Observable value (sequentially over cold sources whose k-th subscription differs, interleaved on hot sources): every subscriber must see the definition's output for its own input, and tap side effects fire for every subscription", '6 C14'),
 'C17': ("as C01 with reference-counted tokens captured by the subscriber's callbacks and by every closure handed to an operator: after the subscription ended and all handles were dropped the tokens must be released; the L1 model predicts the count from an ownership graph derived from the heap", '6 C17'),
}
CNOTE = ("Bounded: schedules with at most 2 (quick) / 3 (thorough) preemptions at lock-operation schedule points plus seeded random schedules, 2-3 threads, "
         "scripts of <= 3 events per thread as listed in lib/conccheck.py; design models bounded as in lib/plans.py. Trusted: TLC, the TLA+ modules, the facade runtime rt/arx_vstd "
         "(writer-preferring RwLock model), the harness.")
CTECH = ("explicit TLA+ specs: lock-operation-level L1 design model (SinkConc / SubjectConc, PlusCal or TLA+) model-checked by TLC for the property; the real crate executed under a controlled "
         "scheduler over all bounded-preemption schedules; every distinct recorded trace judged by TLC trace validation against the L2 monitors of ConcProps (ConcTrace)")
CONC = {
 'C08': ("TLC checks the lock-operation-level model SchedQueue (scheduling / post / stop with spurious wake-ups, abort from inside a task; FIFO, at most once, one at a time, nothing taken after abort returned as invariants; no lost wake-up and worker exit as leads-to properties under weak fairness, deadlock check on); the real NewThreadScheduler / DefaultScheduler are driven by 1-3 posting threads, aborts from threads and from inside tasks, tasks that post, under every schedule within the preemption bound, and every trace is validated by TLC against the queue monitor (real-time FIFO order, quiescence: worker exited iff aborted, else parked with every task run)", '6 C08'),
 'C09': ("TLC checks SchedQueue in the hand-off configuration (one poster, abort issued from inside the last task = on_finalize); observe_on at every position of a short pipeline and stacked twice, and subscribe_on, are executed with an emitting thread and an optional unsubscribing thread under every schedule within the bound; TLC validates each trace: delivered = emitted (prefix when unsubscribed), terminal last, one worker thread that is neither emitter nor subscriber, callbacks never overlap, nothing whose emission started after unsubscribe returned", '6 C09'),
 'C15': ("thread lifecycle events (spawn / exit with virtual time) of the controlled runtime are validated by TLC: for every thread-creating operator x terminating cause (complete, error, unsubscribe, take / first / take_until / amb downstream) every library thread has exited at quiescence, at most one timer period after the subscription ended; TLC checks WorkerExitsAfterAbort on SchedQueue", '6 C15'),
 'C16': ("(virtual time, event) traces of interval / timer / delay / timeout / debounce / sample over a grid of periods and gap scripts, under every schedule within the bound, are validated by TLC against the timed definitions of the statement (L2 only: the timed behaviour is decided on recorded traces; no separate design model)", '6 C16'),
 'C18': ("TLC checks the lock-level model ToVec (poll || source: never ready before the terminal, EventuallyReady under weak fairness = no lost wake-up, result = items in order or the error); the real future is driven by a minimal executor built on the facade primitives with the source on another thread under every schedule within the bound and each trace is validated by TLC", '6 C18'),
 'C11': ("TLC checks the lock-level design models SinkConc (subscriber slots / controller under racing emitters) and CombConc (PlusCal: sink_complete's remove-and-decide critical section and amb's compare-or-elect under one lock: exactly one complete after every item, one winner); the real merge / flat_map / zip / concat / amb (with and without take downstream) are executed with 2-3 emitting threads under every schedule within the preemption bound and each trace is validated by TLC: item conservation, per-input order, tuple pairing, one winner for amb, take(n) <= n, exactly one complete after the last item, never two terminals", '6 C11'),
 'C12': ("TLC checks the lock-level design model SubjectConc (producer / late subscriber / unsubscriber on plain, Behavior and Replay subjects: no duplicate, no gap, order); the real subjects are executed with 1-2 producer threads, a subscribing and an unsubscribing thread under every schedule within the bound and each trace is validated by TLC", '6 C12'),
 'C19': ("TLC checks the lock-level design model SinkConc for all scripts of 2-3 threads (at most one terminal, nothing whose delivery started after the terminal returned, exactly one terminal survives a race); every multi-input operator and the four subject types are executed with racing terminals / items under every schedule within the bound and each trace is validated by TLC", '6 C19'),
}
SEQ['C05'] = (SEQ['C05'][0].replace("(single-thread part; the cross-thread part is decided with C19's machinery)", "; cross-thread part: TLC checks the design model SinkConc (UnsubStops) and validates the traces of every bounded-preemption schedule of an unsubscribing thread racing 1-2 emitters through map / take / merge / scan and the subjects"), SEQ['C05'][1])
checks = []
for pid, (text, ref) in CONC.items():
    checks.append({"property_id": pid, "quick_cmd": "./check %s quick" % pid, "thorough_cmd": "./check %s thorough" % pid,
                   "evidence_file": "/verif/evidence/%s.json" % pid, "replay_cmd_template": "./check --replay {path}", "engine": "tlc-conc",
                   "level_claimed": {"category": "model_checking", "text": text, "design_ref": "DESIGN.md " + ref}, "level_note": CNOTE, "technique": CTECH})
for pid, (text, ref) in SEQ.items():
    checks.append({"property_id": pid, "quick_cmd": "./check %s quick" % pid, "thorough_cmd": "./check %s thorough" % pid,
                   "evidence_file": "/verif/evidence/%s.json" % pid, "replay_cmd_template": "./check --replay {path}", "engine": "tlc-seq",
                   "level_claimed": {"category": "model_checking", "text": text, "design_ref": "DESIGN.md " + ref},
                   "level_note": NOTE + (" " + CNOTE if pid == 'C05' else ""), "technique": TECH + (" || " + CTECH if pid == 'C05' else "")})
checks.sort(key=lambda c: c['property_id'])
ALL = ['C%02d' % i for i in range(1, 20)]
claimed = [c['property_id'] for c in checks]
m = {"version": 1, "setup_cmd": "sh tools/setup.sh",
     "hooks": {"guard": "none (no hook in /repo: every check instruments a scratch copy of the current working tree; DESIGN.md 4.1)",
               "enable": "tools/instrument.sh copies /repo's working tree, rewrites std:: paths to the facade crate rt/arx_vstd and appends read-only vf_observer_count accessors; /repo itself is never touched",
               "baseline_off_cmd": "cd /repo && cargo test --workspace --no-fail-fast --offline", "source_commits": [], "add_only": True},
     "engines": [{"name": "tlc-seq", "path": "/verif/lib/seqcheck.py", "serves_properties": [c for c in claimed if c in SEQ],
                  "kind_free_text": "TLC model checking of spec/RxSeq*.tla, replay harness rt/harness, TLC trace validation spec/RxSeqTrace.tla"},
                 {"name": "tlc-conc", "path": "/verif/lib/conccheck.py", "serves_properties": [c for c in claimed if c in CONC] + ['C05'],
                  "kind_free_text": "TLC model checking of the lock-level design models, controlled-scheduler exploration of the real crate (rt/arx_vstd), TLC trace validation spec/ConcTrace.tla"}],
     "checks": checks,
     "not_applicable": [{"property_id": p, "reason": "specification and harness for this property are still being built in this round; not claimed yet"} for p in ALL if p not in claimed],
     "notes": "Alarm policy, known findings and fix: commits are described in DESIGN.md 5 and known_findings.json."}
json.dump(m, open('/verif/MANIFEST.json', 'w'), indent=1)
print('claimed', claimed)
