#!/bin/sh
# usage: seedeval.sh <diff> <tier> <prop> [<prop> ...]
# Applies a seeded mutation to /repo, runs the listed checks, and undoes it straight afterwards.
D="$1"; T="$2"; shift 2
cd /repo && [ -z "$(git status --porcelain)" ] || { echo "/repo not clean"; exit 2; }
git -C /repo apply "$D" || { echo "APPLY-FAILED"; exit 2; }
cd /verif
for P in "$@"; do
  out=$(./check $P $T 2>&1); rc=$?
  echo "== $P rc=$rc: $(echo "$out" | grep -c '^VIOLATION') VIOLATION lines, $(echo "$out" | grep -c '^KNOWN-FINDING') KNOWN-FINDING, drift: $(echo "$out" | grep -c '^MODEL-DRIFT')"
  echo "$out" | grep -E "^VIOLATION|^TOOL-ERROR|^MODEL-DRIFT" | head -3
  echo "$out" | tail -1
done
git -C /repo checkout -- .
