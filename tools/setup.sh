#!/bin/sh
# MANIFEST.setup_cmd: build everything the checks need from files on disk (offline).
set -e
cd "$(dirname "$0")/.."
export CARGO_NET_OFFLINE=true
for m in spec/*.tla; do (cd spec && tla-sany "$(basename $m)" > /dev/null) || { echo "SANY failed on $m"; exit 1; }; done
sh tools/build.sh > /dev/null
echo "setup ok"
