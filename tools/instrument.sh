#!/bin/sh
# usage: instrument.sh <repo> <dest>
# Copies <repo>'s CURRENT WORKING TREE (not HEAD) to <dest> and instruments the copy (DESIGN.md 4.1):
#   1. every path root `std::` in src/**/*.rs is rewritten to `::arx_vstd::` (the facade crate),
#   2. the facade crate is added as a dependency (relative path ../arx_vstd),
#   3. read-only accessors `vf_observer_count()` are appended to the four subject types.
# Nothing is ever written to <repo>.  Env: ARX_NO_ACCESSORS=1 skips step 3 (fallback mode).
set -e
repo="$1"; dest="$2"
rm -rf "$dest"; mkdir -p "$dest"
rsync -a --exclude target --exclude .git "$repo"/ "$dest"/
grep -rl 'std::' "$dest/src" | xargs -r sed -i -E 's/(^|[^A-Za-z0-9_:])(::)?std::/\1::arx_vstd::/g'
sed -i "s#^\[dependencies\]#[dependencies]\narx_vstd = { path = \"../arx_vstd\" }#" "$dest/Cargo.toml"
# the crate's dev-dependencies (tokio, anyhow) are not needed by the harness and slow the build down
python3 - "$dest/Cargo.toml" <<'EOT'
import re, sys
p = sys.argv[1]
s = open(p).read()
s = re.sub(r'(?ms)^\[dev-dependencies\]\n.*?(?=^\[|\Z)', '', s)
open(p, 'w').write(s)
EOT
if [ -z "$ARX_NO_ACCESSORS" ]; then
cat >> "$dest/src/subjects/subject.rs" <<'EOT'

impl<'a, Item> Subject<'a, Item>
where
  Item: Clone + Send + Sync,
{
  #[doc(hidden)]
  pub fn vf_observer_count(&self) -> usize {
    self.observers.read().unwrap().len()
  }
}
EOT
for f in behavior_subject:BehaviorSubject replay_subject:ReplaySubject async_subject:AsyncSubject; do
file="${f%%:*}"; ty="${f##*:}"
cat >> "$dest/src/subjects/$file.rs" <<EOT

impl<'a, Item> $ty<'a, Item>
where
  Item: Clone + Send + Sync,
{
  #[doc(hidden)]
  pub fn vf_observer_count(&self) -> usize {
    self.subject.vf_observer_count()
  }
}
EOT
done
for f in publish:Publish:sbj ref_count:RefCount:subject replay:Replay:subject; do
file="${f%%:*}"; r="${f#*:}"; ty="${r%%:*}"; fld="${r##*:}"
cat >> "$dest/src/operators/$file.rs" <<EOT

impl<'a, Item> $ty<'a, Item>
where
  Item: Clone + Send + Sync,
{
  #[doc(hidden)]
  pub fn vf_observer_count(&self) -> usize {
    self.$fld.vf_observer_count()
  }
}
EOT
done
fi
