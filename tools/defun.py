#!/usr/bin/env python3
"""defun.py <in.tla> <out.tla>

Mechanical, semantics-preserving rewrite of a TLA+ module whose operators are heavily mutually recursive
(spec/RxSeq.tla): every call `F(a, b)` of an operator F that is declared RECURSIVE at module level is routed through
one dispatcher   D("F", <<a, b>>)   with   D(f, a) == CASE f = "F" -> F(a[1], a[2]) [] ...

Why: at start-up TLC computes a "level bound" for every definition by walking the call graph *without memoisation*
(tlc2.tool.impl.SymbolNodeValueLookupProvider.getLevelBound marks visited operators per path only), which is
exponential in the number of simple paths of the mutual recursion (measured: 56 s for 40 operators and growing
with every operator added).  With the dispatcher every path is cut after one hop and start-up is < 2 s.
The hand-written module stays the readable source of truth; the output is what TLC runs.
"""
import re
import sys


def main():
    src = open(sys.argv[1]).read()
    names = []
    # the largest module-level RECURSIVE declaration (column 0) lists the mutually recursive operators
    first = max(re.finditer(r'^RECURSIVE\s+(.*?)(?=^\S)', src, re.S | re.M), key=lambda m: m.group(1).count('('))
    for nm, args in re.findall(r'([A-Za-z0-9_]+)\(([_,\s]*)\)', first.group(1)):
        names.append((nm, args.count('_')))
    arity = dict(names)
    pat = re.compile(r'(?<![A-Za-z0-9_"])(' + '|'.join(sorted(arity, key=len, reverse=True)) + r')\(')

    def is_def_head(s, start, close):
        # a definition head starts at column 0 and is followed by `==`
        if start > 0 and s[start - 1] != '\n':
            return False
        return re.match(r'\s*==', s[close + 1:]) is not None

    def matching(s, i):
        depth = 0
        j = i
        while j < len(s):
            c = s[j]
            if c == '(':
                depth += 1
            elif c == ')':
                depth -= 1
                if depth == 0:
                    return j
            j += 1
        raise SystemExit('unbalanced parenthesis at %d' % i)

    def rewrite(s):
        out = []
        i = 0
        while True:
            m = pat.search(s, i)
            if not m:
                out.append(s[i:])
                break
            op = m.end() - 1
            close = matching(s, op)
            line_start = s.rfind('\n', 0, m.start()) + 1
            if s[line_start:m.start()].lstrip().startswith('RECURSIVE') or s[line_start:m.start()].lstrip().startswith('\\*'):
                out.append(s[i:close + 1])
                i = close + 1
                continue
            if re.fullmatch(r'[_,\s]*', s[op + 1:close]) or is_def_head(s, m.start(), close):
                out.append(s[i:close + 1])
                i = close + 1
                continue
            out.append(s[i:m.start()])
            out.append('D("%s", <<%s>>)' % (m.group(1), rewrite(s[op + 1:close])))
            i = close + 1
        return ''.join(out)

    # leave comments untouched: split off (* ... *) header blocks and \* line comments
    def rewrite_code(text):
        res = []
        for line in text.split('\n'):
            k = line.find('\\*')
            code, com = (line, '') if k < 0 else (line[:k], line[k:])
            res.append((code, com))
        # rewriting must see multi-line expressions: join code parts, keep comments by placeholder
        marks = []
        joined = []
        for code, com in res:
            marks.append(com)
            joined.append(code + ('\x00%d\x00' % (len(marks) - 1) if com else ''))
        body = rewrite('\n'.join(joined))
        return re.sub('\x00(\\d+)\x00', lambda m: marks[int(m.group(1))], body)

    head_end = src.index('*)') + 2 if src.lstrip().startswith('-') and '(*' in src[:400] else 0
    out = src[:head_end] + rewrite_code(src[head_end:])
    disp = ['RECURSIVE D(_,_)', 'D(f, a) ==', '  CASE ' + '\n    [] '.join(
        'f = "%s" -> %s(%s)' % (n, n, ', '.join('a[%d]' % (k + 1) for k in range(ar))) for n, ar in names)]
    # insert the dispatcher right after that declaration
    last = max(re.finditer(r'^RECURSIVE\s+(.*?)(?=^\S)', out, re.S | re.M), key=lambda m: m.group(1).count('('))
    out = out[:last.end()] + '\n'.join(disp) + '\n' + out[last.end():]
    open(sys.argv[2], 'w').write(out)


if __name__ == '__main__':
    main()
