#!/bin/sh
# runs every thorough check in turn (used with `vp run --with-repo -- sh tools/thorough_all.sh`); prints one line per check
cd "$(dirname "$0")/.."
[ -n "$VP_RUN_REPO" ] && export ARX_REPO="$VP_RUN_REPO"
for P in ${PROPS:-C18 C16 C15 C08 C09 C12 C11 C19 C04 C02 C14 C13 C17 C06 C01 C03 C10 C05 C07}; do
  s=$(date +%s)
  out=$(./check $P thorough 2>&1); rc=$?
  echo "== $P rc=$rc $(( $(date +%s) - s ))s"
  echo "$out" | grep -E "^VIOLATION|^TOOL-ERROR|^MODEL-DRIFT|^MODEL-FINDING|^C[0-9]+ thorough" | cut -c1-400
done
