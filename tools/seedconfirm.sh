#!/bin/sh
# usage: seedconfirm.sh <worktree> <a|b>
# Confirms a sub-agent's seeded mutation in ITS scratch worktree: demo passes on the clean tree; with the patch applied the
# crate's own tests (lib + doc) still pass and the demo fails.  Leaves the worktree clean.
W="$1"; L="$2"
cd "$W" || exit 2
git checkout -q -- . 2>/dev/null
export CARGO_NET_OFFLINE=true
clean=$(timeout 300 cargo test --offline --test demo_$L 2>&1 | grep -E "^test result" | tail -1)
git apply out/$L.diff || { echo "APPLY-FAILED"; exit 2; }
lib=$(timeout 600 cargo test --offline --lib 2>&1 | grep -E "^test result" | tail -1)
doc=$(timeout 600 cargo test --offline --doc 2>&1 | grep -E "^test result" | tail -1)
mut=$(timeout 300 cargo test --offline --test demo_$L 2>&1 | grep -E "^test result|timed out" | tail -1)
git checkout -q -- .
echo "clean-demo: $clean"
echo "mutated-lib: $lib"
echo "mutated-doc: $doc"
echo "mutated-demo: $mut"
