#!/usr/bin/env python3
"""seedstore.py <agent worktree> <a|b> <seed id> <property> <caught-by (comma list or 'none')> <ran...>
Stores a confirmed seeded mutation under /verif/seeded/<id>/ (patch.diff, the demonstration, meta.json)."""
import json, os, re, shutil, sys
wt, letter, sid, prop, caught = sys.argv[1:6]
ran = sys.argv[6:]
d = '/verif/seeded/' + sid
os.makedirs(d, exist_ok=True)
shutil.copy('%s/out/%s.diff' % (wt, letter), d + '/patch.diff')
shutil.copy('%s/out/demo_%s.rs' % (wt, letter), d + '/demo.rs')
readme = open(wt + '/out/README.md').read()
# the README section of this mutation
parts = re.split(r'(?im)^#+\s*mutation\s+', readme)
sec = next((p for p in parts if p.strip().lower().startswith(letter)), readme)
meta = {'id': sid, 'breaks_property': prop, 'source': 'independent sub-agent given only the property text and a scratch worktree',
        'description_and_what_it_needs_to_manifest': sec.strip()[:3000],
        'confirmed': 'tools/seedconfirm.sh: demo passes on the clean tree; with the patch the crate\'s 179 unit + 3 doc tests pass and the demo fails',
        'checks_run': ran, 'caught_by': [] if caught == 'none' else caught.split(',')}
json.dump(meta, open(d + '/meta.json', 'w'), indent=1)
print('stored', d)
