#!/usr/bin/env python3
"""prints the markdown table of /verif/seeded/*/meta.json (pasted into DESIGN.md I.10)"""
import glob, json, re
print('| seed | breaks | what the change is / needs | caught by |')
print('|---|---|---|---|')
for f in sorted(glob.glob('/verif/seeded/*/meta.json')):
    m = json.load(open(f))
    d = m['description_and_what_it_needs_to_manifest']
    d = re.sub(r'\s+', ' ', d)
    d = re.sub(r'^[ab]\s*[—:-]*\s*', '', d, flags=re.I)
    first = 'none (see checks_run)' if not m['caught_by'] else ', '.join(m['caught_by'])
    late = any('after ' in x or 'MISS at first' in x for x in m['checks_run']) or 'Strengthened' in m.get('note', '')
    print('| %s | %s | %s | %s%s |' % (m['id'], m['breaks_property'], d[:230].replace('|', '/'), first, ' (after strengthening)' if late else ''))
