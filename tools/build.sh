#!/bin/sh
# usage: build.sh   -> prints the path of a harness binary built from /repo's CURRENT working tree.
# The binary is cached under /verif/.cache/bin/<sha256 of (repo sources, facade, harness, this script)> so that
# consecutive checks on an unchanged tree do not rebuild; any edit of /repo/src changes the key and forces a rebuild.
# Exit 2 = tool error (instrumented copy does not build).
set -e
V=$(cd "$(dirname "$0")/.." && pwd)
REPO=${ARX_REPO:-/repo}
key=$( (cd "$REPO" && find src Cargo.toml -type f | LC_ALL=C sort | xargs sha256sum; \
        cd $V && find rt/arx_vstd/src rt/arx_vstd/Cargo.toml rt/harness/src rt/harness/Cargo.toml rt/harness/Cargo.lock tools/instrument.sh tools/build.sh -type f | LC_ALL=C sort | xargs sha256sum; \
        echo "${ARX_NO_ACCESSORS}") | sha256sum | cut -c1-24)
bin=$V/.cache/bin/$key/harness
if [ -x "$bin" ]; then echo "$bin"; exit 0; fi
# fixed scratch path (cargo fingerprints path dependencies by absolute path) guarded by a lock; removed afterwards
mkdir -p $V/.cache
exec 9> $V/.cache/build.lock
flock 9
if [ -x "$bin" ]; then echo "$bin"; exit 0; fi
S=/tmp/arxv-build$(echo "$V" | cksum | cut -c1-6)
rm -rf "$S"; mkdir -p "$S"
trap 'rm -rf "$S"' EXIT
sh $V/tools/instrument.sh "$REPO" "$S/inst" >&2
cp -rp $V/rt/arx_vstd "$S/arx_vstd"
cp -rp $V/rt/harness "$S/harness"
rm -rf "$S/arx_vstd/target" "$S/harness/target"
mkdir -p $V/.cache/target
export CARGO_NET_OFFLINE=true
export CARGO_TARGET_DIR=$V/.cache/target
if ! (cd "$S/harness" && cargo build --release --offline -q 2> "$S/build.log"); then
  # the appended vf_observer_count() accessors name private fields of the subjects / connectables; when a refactoring renamed
  # them, build once more WITHOUT the accessors (observer counts are then reported as unknown = -1 and not compared)
  if [ -z "$ARX_NO_ACCESSORS" ]; then
    echo "note: instrumented build failed, retrying without the observer-count accessors" >&2
    ARX_NO_ACCESSORS=1 sh $V/tools/instrument.sh "$REPO" "$S/inst" >&2
    if ! (cd "$S/harness" && RUSTFLAGS="--cfg no_count --check-cfg cfg(no_count)" cargo build --release --offline -q 2> "$S/build2.log"); then
      cat "$S/build.log" "$S/build2.log" >&2
      echo "TOOL-ERROR: instrumented copy of $REPO does not build" >&2
      exit 2
    fi
  else
    cat "$S/build.log" >&2
    echo "TOOL-ERROR: instrumented copy of $REPO does not build" >&2
    exit 2
  fi
fi
mkdir -p $V/.cache/bin/$key
cp $V/.cache/target/release/harness "$bin"
# keep at most 4 cached binaries
ls -1dt $V/.cache/bin/*/ 2>/dev/null | tail -n +5 | xargs -r rm -rf
echo "$bin"
