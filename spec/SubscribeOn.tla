---------------------------- MODULE SubscribeOn ----------------------------
(* L1 design model of operators/subscribe_on.rs on a new-thread scheduler (C09 subscribe_on clauses, C15):

     subscribing thread   creates the scheduler (its worker thread starts), registers on_finalize = scheduler.abort(), POSTS the
                          job "subscribe the source", returns the Subscription
     worker thread        waits for the queue / abort; runs the job: new_observer (born unsubscribed when the stream is already
                          over - fix 49a5033) and inner_subscribe: a synchronous cold source emits its items and its terminal inside the job
                          through sink_next / sink_complete (terminal -> finalize -> abort); then waits again
     unsubscriber         (optional) Observer::unsubscribe at any moment: slots cleared, finalize(): upstream observers unsubscribed,
                          abort(): flag set, queue cleared, worker woken

   Invariants: everything is delivered on the worker thread, in source order, terminal last; nothing after unsubscribe returned;
   without an unsubscriber the whole script arrives.  Leads-to: the worker exits once the subscription has ended.
   HookInJob = TRUE is the seeded mistake C15r5-a (on_finalize registered inside the posted job instead of before the post): an
   unsubscribe that comes before the worker starts the job finds no hook, nobody aborts, and the worker never exits. *)
EXTENDS Integers, Sequences, FiniteSets, TLC
CONSTANTS NItems, Completes, WithUnsub, HookInJob
(* --algorithm SubscribeOn {
variables
  queue = <<>>, aborted = FALSE,
  hook = FALSE,            \* on_finalize is registered
  sub = TRUE,              \* downstream subscriber still subscribed
  finalized = FALSE,
  delivered = <<>>, unsubReturned = FALSE, deliveredAfterUnsub = FALSE,
  workerDone = FALSE, posted = FALSE;
define {
  Script == [i \in 1..NItems |-> <<"n", i>>] \o (IF Completes THEN << <<"c", 0>> >> ELSE <<>>)
  Kinds(s) == [i \in 1..Len(s) |-> <<s[i][1], s[i][2]>>]
  IsPrefix(a, b) == Len(a) <= Len(b) /\ \A i \in 1..Len(a) : a[i] = b[i]
  OrderOK == IsPrefix(Kinds(delivered), Script)
  OnWorker == \A i \in 1..Len(delivered) : delivered[i][3] = "worker"
  NothingAfterUnsub == ~deliveredAfterUnsub
  AllDone == \A p \in {"caller", "worker", "unsub"} : pc[p] = "Done"
  NothingLost == (AllDone /\ ~WithUnsub) => Kinds(delivered) = Script
  WorkerExits == (Completes \/ WithUnsub) ~> workerDone
}
macro finalize() {
  if (~finalized) { finalized := TRUE; if (hook) { aborted := TRUE; queue := <<>> } }
}
fair process (caller \in {"caller"})
{
c_hook: if (~HookInJob) { hook := TRUE };                        \* sctl.set_on_finalize(abort)
c_post: queue := Append(queue, "job"); posted := TRUE;           \* scheduler.post(job)
}
fair process (worker \in {"worker"})
variables k = 1;
{
w_wait: await queue # <<>> \/ aborted;
        if (aborted) { goto w_exit } else { queue := Tail(queue) };
w_job:  if (HookInJob) { hook := TRUE };                         \* (the seeded variant registers the hook here)
w_obs:  if (finalized) { goto w_back };                          \* new_observer is born unsubscribed: the source is not started
w_emit: while (k <= Len(Script)) {
          if (sub) {
            delivered := Append(delivered, <<Script[k][1], Script[k][2], "worker">>);
            if (unsubReturned) { deliveredAfterUnsub := TRUE };
            if (Script[k][1] = "c") { sub := FALSE };
          };
          if (~sub) {                                            \* sink_* on an ended subscriber / after the terminal: finalize
w_fin:      finalize();
            goto w_back;
          };
w_step:   k := k + 1;
        };
w_back: goto w_wait;
w_exit: workerDone := TRUE;
}
fair process (unsub \in {"unsub"})
{
u_go:   if (WithUnsub) {
          await posted;                                          \* the Subscription exists once subscribe() returned
u_clear:  sub := FALSE;
u_fin:    finalize();
u_ret:    unsubReturned := TRUE;
        }
}
} *)
\* BEGIN TRANSLATION (chksum(pcal) = "8fc0b03" /\ chksum(tla) = "863ab39")
VARIABLES pc, queue, aborted, hook, sub, finalized, delivered, unsubReturned, 
          deliveredAfterUnsub, workerDone, posted

(* define statement *)
Script == [i \in 1..NItems |-> <<"n", i>>] \o (IF Completes THEN << <<"c", 0>> >> ELSE <<>>)
Kinds(s) == [i \in 1..Len(s) |-> <<s[i][1], s[i][2]>>]
IsPrefix(a, b) == Len(a) <= Len(b) /\ \A i \in 1..Len(a) : a[i] = b[i]
OrderOK == IsPrefix(Kinds(delivered), Script)
OnWorker == \A i \in 1..Len(delivered) : delivered[i][3] = "worker"
NothingAfterUnsub == ~deliveredAfterUnsub
AllDone == \A p \in {"caller", "worker", "unsub"} : pc[p] = "Done"
NothingLost == (AllDone /\ ~WithUnsub) => Kinds(delivered) = Script
WorkerExits == (Completes \/ WithUnsub) ~> workerDone

VARIABLE k

vars == << pc, queue, aborted, hook, sub, finalized, delivered, unsubReturned, 
           deliveredAfterUnsub, workerDone, posted, k >>

ProcSet == ({"caller"}) \cup ({"worker"}) \cup ({"unsub"})

Init == (* Global variables *)
        /\ queue = <<>>
        /\ aborted = FALSE
        /\ hook = FALSE
        /\ sub = TRUE
        /\ finalized = FALSE
        /\ delivered = <<>>
        /\ unsubReturned = FALSE
        /\ deliveredAfterUnsub = FALSE
        /\ workerDone = FALSE
        /\ posted = FALSE
        (* Process worker *)
        /\ k = [self \in {"worker"} |-> 1]
        /\ pc = [self \in ProcSet |-> CASE self \in {"caller"} -> "c_hook"
                                        [] self \in {"worker"} -> "w_wait"
                                        [] self \in {"unsub"} -> "u_go"]

c_hook(self) == /\ pc[self] = "c_hook"
                /\ IF ~HookInJob
                      THEN /\ hook' = TRUE
                      ELSE /\ TRUE
                           /\ hook' = hook
                /\ pc' = [pc EXCEPT ![self] = "c_post"]
                /\ UNCHANGED << queue, aborted, sub, finalized, delivered, 
                                unsubReturned, deliveredAfterUnsub, workerDone, 
                                posted, k >>

c_post(self) == /\ pc[self] = "c_post"
                /\ queue' = Append(queue, "job")
                /\ posted' = TRUE
                /\ pc' = [pc EXCEPT ![self] = "Done"]
                /\ UNCHANGED << aborted, hook, sub, finalized, delivered, 
                                unsubReturned, deliveredAfterUnsub, workerDone, 
                                k >>

caller(self) == c_hook(self) \/ c_post(self)

w_wait(self) == /\ pc[self] = "w_wait"
                /\ queue # <<>> \/ aborted
                /\ IF aborted
                      THEN /\ pc' = [pc EXCEPT ![self] = "w_exit"]
                           /\ queue' = queue
                      ELSE /\ queue' = Tail(queue)
                           /\ pc' = [pc EXCEPT ![self] = "w_job"]
                /\ UNCHANGED << aborted, hook, sub, finalized, delivered, 
                                unsubReturned, deliveredAfterUnsub, workerDone, 
                                posted, k >>

w_job(self) == /\ pc[self] = "w_job"
               /\ IF HookInJob
                     THEN /\ hook' = TRUE
                     ELSE /\ TRUE
                          /\ hook' = hook
               /\ pc' = [pc EXCEPT ![self] = "w_obs"]
               /\ UNCHANGED << queue, aborted, sub, finalized, delivered, 
                               unsubReturned, deliveredAfterUnsub, workerDone, 
                               posted, k >>

w_obs(self) == /\ pc[self] = "w_obs"
               /\ IF finalized
                     THEN /\ pc' = [pc EXCEPT ![self] = "w_back"]
                     ELSE /\ pc' = [pc EXCEPT ![self] = "w_emit"]
               /\ UNCHANGED << queue, aborted, hook, sub, finalized, delivered, 
                               unsubReturned, deliveredAfterUnsub, workerDone, 
                               posted, k >>

w_emit(self) == /\ pc[self] = "w_emit"
                /\ IF k[self] <= Len(Script)
                      THEN /\ IF sub
                                 THEN /\ delivered' = Append(delivered, <<Script[k[self]][1], Script[k[self]][2], "worker">>)
                                      /\ IF unsubReturned
                                            THEN /\ deliveredAfterUnsub' = TRUE
                                            ELSE /\ TRUE
                                                 /\ UNCHANGED deliveredAfterUnsub
                                      /\ IF Script[k[self]][1] = "c"
                                            THEN /\ sub' = FALSE
                                            ELSE /\ TRUE
                                                 /\ sub' = sub
                                 ELSE /\ TRUE
                                      /\ UNCHANGED << sub, delivered, 
                                                      deliveredAfterUnsub >>
                           /\ IF ~sub'
                                 THEN /\ pc' = [pc EXCEPT ![self] = "w_fin"]
                                 ELSE /\ pc' = [pc EXCEPT ![self] = "w_step"]
                      ELSE /\ pc' = [pc EXCEPT ![self] = "w_back"]
                           /\ UNCHANGED << sub, delivered, deliveredAfterUnsub >>
                /\ UNCHANGED << queue, aborted, hook, finalized, unsubReturned, 
                                workerDone, posted, k >>

w_step(self) == /\ pc[self] = "w_step"
                /\ k' = [k EXCEPT ![self] = k[self] + 1]
                /\ pc' = [pc EXCEPT ![self] = "w_emit"]
                /\ UNCHANGED << queue, aborted, hook, sub, finalized, 
                                delivered, unsubReturned, deliveredAfterUnsub, 
                                workerDone, posted >>

w_fin(self) == /\ pc[self] = "w_fin"
               /\ IF ~finalized
                     THEN /\ finalized' = TRUE
                          /\ IF hook
                                THEN /\ aborted' = TRUE
                                     /\ queue' = <<>>
                                ELSE /\ TRUE
                                     /\ UNCHANGED << queue, aborted >>
                     ELSE /\ TRUE
                          /\ UNCHANGED << queue, aborted, finalized >>
               /\ pc' = [pc EXCEPT ![self] = "w_back"]
               /\ UNCHANGED << hook, sub, delivered, unsubReturned, 
                               deliveredAfterUnsub, workerDone, posted, k >>

w_back(self) == /\ pc[self] = "w_back"
                /\ pc' = [pc EXCEPT ![self] = "w_wait"]
                /\ UNCHANGED << queue, aborted, hook, sub, finalized, 
                                delivered, unsubReturned, deliveredAfterUnsub, 
                                workerDone, posted, k >>

w_exit(self) == /\ pc[self] = "w_exit"
                /\ workerDone' = TRUE
                /\ pc' = [pc EXCEPT ![self] = "Done"]
                /\ UNCHANGED << queue, aborted, hook, sub, finalized, 
                                delivered, unsubReturned, deliveredAfterUnsub, 
                                posted, k >>

worker(self) == w_wait(self) \/ w_job(self) \/ w_obs(self) \/ w_emit(self)
                   \/ w_step(self) \/ w_fin(self) \/ w_back(self)
                   \/ w_exit(self)

u_go(self) == /\ pc[self] = "u_go"
              /\ IF WithUnsub
                    THEN /\ posted
                         /\ pc' = [pc EXCEPT ![self] = "u_clear"]
                    ELSE /\ pc' = [pc EXCEPT ![self] = "Done"]
              /\ UNCHANGED << queue, aborted, hook, sub, finalized, delivered, 
                              unsubReturned, deliveredAfterUnsub, workerDone, 
                              posted, k >>

u_clear(self) == /\ pc[self] = "u_clear"
                 /\ sub' = FALSE
                 /\ pc' = [pc EXCEPT ![self] = "u_fin"]
                 /\ UNCHANGED << queue, aborted, hook, finalized, delivered, 
                                 unsubReturned, deliveredAfterUnsub, 
                                 workerDone, posted, k >>

u_fin(self) == /\ pc[self] = "u_fin"
               /\ IF ~finalized
                     THEN /\ finalized' = TRUE
                          /\ IF hook
                                THEN /\ aborted' = TRUE
                                     /\ queue' = <<>>
                                ELSE /\ TRUE
                                     /\ UNCHANGED << queue, aborted >>
                     ELSE /\ TRUE
                          /\ UNCHANGED << queue, aborted, finalized >>
               /\ pc' = [pc EXCEPT ![self] = "u_ret"]
               /\ UNCHANGED << hook, sub, delivered, unsubReturned, 
                               deliveredAfterUnsub, workerDone, posted, k >>

u_ret(self) == /\ pc[self] = "u_ret"
               /\ unsubReturned' = TRUE
               /\ pc' = [pc EXCEPT ![self] = "Done"]
               /\ UNCHANGED << queue, aborted, hook, sub, finalized, delivered, 
                               deliveredAfterUnsub, workerDone, posted, k >>

unsub(self) == u_go(self) \/ u_clear(self) \/ u_fin(self) \/ u_ret(self)

(* Allow infinite stuttering to prevent deadlock on termination. *)
Terminating == /\ \A self \in ProcSet: pc[self] = "Done"
               /\ UNCHANGED vars

Next == (\E self \in {"caller"}: caller(self))
           \/ (\E self \in {"worker"}: worker(self))
           \/ (\E self \in {"unsub"}: unsub(self))
           \/ Terminating

Spec == /\ Init /\ [][Next]_vars
        /\ \A self \in {"caller"} : WF_vars(caller(self))
        /\ \A self \in {"worker"} : WF_vars(worker(self))
        /\ \A self \in {"unsub"} : WF_vars(unsub(self))

Termination == <>(\A self \in ProcSet: pc[self] = "Done")

\* END TRANSLATION 
=============================================================================
