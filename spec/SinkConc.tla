------------------------------ MODULE SinkConc ------------------------------
(* L1 (implementation-shaped, small-step) model of what decides C19 / C05 / the terminal clauses of C11 under races:
   one subscriber Observer (three callback slots, each an Arc<RwLock<Option<..>>>) behind one StreamController, driven by
   several threads.  One action per lock operation of the Rust code (function_wrapper.rs / observer.rs /
   stream_controller.rs), in program order:

     Observer::next      fetch_function: read fn_next (clone the callable out)          -> call it with no lock held
     Observer::error     take fn_next (the arbiter)  -> clear fn_complete -> take fn_error -> call
     Observer::complete  take fn_next (the arbiter)  -> clear fn_error -> take fn_complete -> call
     Observer::unsubscribe  clear fn_next -> clear fn_error -> clear fn_complete
     sink_next / sink_error / sink_complete_force   is_subscribed() = three separate reads, then the call above (check-then-act,
                                                    nothing held in between)

   Threads: each runs a script of calls into the controller (an input of merge emitting, a trigger forcing completion, a
   thread unsubscribing).  `cb` records every callback with the position of the call that carried it, so the L2
   property of ConcProps (C19ok / C05ok) can be stated on the model's own history.
   ArbiterFix = FALSE models the code before fix 7102364 (terminals do not take fn_next first) and shows the violation. *)
EXTENDS Integers, Sequences, FiniteSets, TLC
CONSTANTS NThreads, MaxCalls,   \* TLC explores every assignment of scripts of 1..MaxCalls calls to NThreads threads
          ArbiterFix,
          WithFinalize            \* TRUE: also the tail StreamController::finalize() of every path but a delivered next
                                  \* (is_subscribed() again; if still subscribed, Observer::unsubscribe()).  It only reads
                                  \* in every reachable state, so the invariants do not depend on it; the lock-level trace
                                  \* validation (SinkConcTrace) needs it to follow the code step by step.

Threads == 1..NThreads
Calls == {"next", "error", "complete", "unsub"}
ScriptSpace == UNION { [1..n -> Calls] : n \in 1..MaxCalls }
VARIABLES Scripts,                \* Scripts[t]: the calls of thread t, chosen initially
          slotN, slotE, slotC,    \* the three callback slots: TRUE = present
          pc, ip, got,            \* per thread: program counter inside the current call, index in its script, fetched/taken flag
          hist,                   \* visible history: <<kind, thread, call index>> for call starts, callbacks and returns
          clock
vars == <<Scripts, slotN, slotE, slotC, pc, ip, got, hist, clock>>

Init == /\ Scripts \in [Threads -> ScriptSpace]
        /\ slotN = TRUE /\ slotE = TRUE /\ slotC = TRUE
        /\ pc = [t \in Threads |-> "idle"] /\ ip = [t \in Threads |-> 1] /\ got = [t \in Threads |-> FALSE]
        /\ hist = <<>> /\ clock = 0

Cur(t) == Scripts[t][ip[t]]
Log(kind, t) == hist' = Append(hist, [k |-> kind, t |-> t, i |-> ip[t]])
Goto(t, l) == pc' = [pc EXCEPT ![t] = l]
Done(t) == /\ pc' = [pc EXCEPT ![t] = "idle"] /\ ip' = [ip EXCEPT ![t] = @ + 1]
Fin == IF WithFinalize THEN "f1" ELSE "ret"

\* start of a call: the controller's is_subscribed() check = three separate slot reads (sink_* only; unsubscribe has none)
Start(t) == /\ pc[t] = "idle" /\ ip[t] <= Len(Scripts[t])
            /\ Log("call:" \o Cur(t), t)
            /\ Goto(t, IF Cur(t) = "unsub" THEN "u1" ELSE "chkN")
            /\ UNCHANGED <<slotN, slotE, slotC, ip, got, clock>>
ChkN(t) == /\ pc[t] = "chkN" /\ (IF slotN THEN Goto(t, "chkE") ELSE Goto(t, Fin)) /\ UNCHANGED <<slotN, slotE, slotC, ip, got, hist, clock>>
ChkE(t) == /\ pc[t] = "chkE" /\ (IF slotE THEN Goto(t, "chkC") ELSE Goto(t, Fin)) /\ UNCHANGED <<slotN, slotE, slotC, ip, got, hist, clock>>
ChkC(t) == /\ pc[t] = "chkC"
           /\ (IF ~slotC THEN Goto(t, Fin)
               ELSE Goto(t, CASE Cur(t) = "next" -> "n1" [] Cur(t) = "error" -> (IF ArbiterFix THEN "e0" ELSE "e1") [] OTHER -> (IF ArbiterFix THEN "c0" ELSE "c1")))
           /\ UNCHANGED <<slotN, slotE, slotC, ip, got, hist, clock>>
\* Observer::next
N1(t) == /\ pc[t] = "n1" /\ got' = [got EXCEPT ![t] = slotN] /\ Goto(t, "n2") /\ UNCHANGED <<slotN, slotE, slotC, ip, hist, clock>>
N2(t) == /\ pc[t] = "n2" /\ (IF got[t] THEN Log("cb:n", t) ELSE UNCHANGED hist) /\ Goto(t, "ret") /\ UNCHANGED <<slotN, slotE, slotC, ip, got, clock>>
\* Observer::error
E0(t) == /\ pc[t] = "e0" /\ slotN' = FALSE /\ (IF slotN THEN Goto(t, "e1") ELSE Goto(t, Fin)) /\ UNCHANGED <<slotE, slotC, ip, got, hist, clock>>
E1(t) == /\ pc[t] = "e1" /\ slotC' = (IF ArbiterFix THEN FALSE ELSE slotC) /\ Goto(t, "e2") /\ UNCHANGED <<slotN, slotE, ip, got, hist, clock>>
E2(t) == /\ pc[t] = "e2" /\ got' = [got EXCEPT ![t] = slotE] /\ slotE' = FALSE /\ Goto(t, "e3") /\ UNCHANGED <<slotN, slotC, ip, hist, clock>>
E3(t) == /\ pc[t] = "e3" /\ (IF got[t] THEN Log("cb:e", t) ELSE UNCHANGED hist) /\ Goto(t, Fin) /\ UNCHANGED <<slotN, slotE, slotC, ip, got, clock>>
\* Observer::complete
C0(t) == /\ pc[t] = "c0" /\ slotN' = FALSE /\ (IF slotN THEN Goto(t, "c1") ELSE Goto(t, Fin)) /\ UNCHANGED <<slotE, slotC, ip, got, hist, clock>>
C1(t) == /\ pc[t] = "c1" /\ slotE' = (IF ArbiterFix THEN FALSE ELSE slotE) /\ Goto(t, "c2") /\ UNCHANGED <<slotN, slotC, ip, got, hist, clock>>
C2(t) == /\ pc[t] = "c2" /\ got' = [got EXCEPT ![t] = slotC] /\ slotC' = FALSE /\ Goto(t, "c3") /\ UNCHANGED <<slotN, slotE, ip, hist, clock>>
C3(t) == /\ pc[t] = "c3" /\ (IF got[t] THEN Log("cb:c", t) ELSE UNCHANGED hist) /\ Goto(t, Fin) /\ UNCHANGED <<slotN, slotE, slotC, ip, got, clock>>
\* Observer::unsubscribe
U1(t) == /\ pc[t] = "u1" /\ slotN' = FALSE /\ Goto(t, "u2") /\ UNCHANGED <<slotE, slotC, ip, got, hist, clock>>
U2(t) == /\ pc[t] = "u2" /\ slotE' = FALSE /\ Goto(t, "u3") /\ UNCHANGED <<slotN, slotC, ip, got, hist, clock>>
U3(t) == /\ pc[t] = "u3" /\ slotC' = FALSE /\ Goto(t, Fin) /\ UNCHANGED <<slotN, slotE, ip, got, hist, clock>>
\* StreamController::finalize(): is_subscribed() (reads stop at the first empty slot); if all three are present,
\* Observer::unsubscribe() (whose hook is finalize() again: the second round finds the next slot empty)
F1(t) == /\ pc[t] = "f1" /\ (IF slotN THEN Goto(t, "f2") ELSE Goto(t, "ret")) /\ UNCHANGED <<slotN, slotE, slotC, ip, got, hist, clock>>
F2(t) == /\ pc[t] = "f2" /\ (IF slotE THEN Goto(t, "f3") ELSE Goto(t, "ret")) /\ UNCHANGED <<slotN, slotE, slotC, ip, got, hist, clock>>
F3(t) == /\ pc[t] = "f3" /\ (IF slotC THEN Goto(t, "fu1") ELSE Goto(t, "ret")) /\ UNCHANGED <<slotN, slotE, slotC, ip, got, hist, clock>>
FU1(t) == /\ pc[t] = "fu1" /\ slotN' = FALSE /\ Goto(t, "fu2") /\ UNCHANGED <<slotE, slotC, ip, got, hist, clock>>
FU2(t) == /\ pc[t] = "fu2" /\ slotE' = FALSE /\ Goto(t, "fu3") /\ UNCHANGED <<slotN, slotC, ip, got, hist, clock>>
FU3(t) == /\ pc[t] = "fu3" /\ slotC' = FALSE /\ Goto(t, "f1") /\ UNCHANGED <<slotN, slotE, ip, got, hist, clock>>
Ret(t) == /\ pc[t] = "ret" /\ Log("ret:" \o Cur(t), t) /\ Done(t) /\ UNCHANGED <<slotN, slotE, slotC, got, clock>>

Step(t) == Start(t) \/ ChkN(t) \/ ChkE(t) \/ ChkC(t) \/ N1(t) \/ N2(t) \/ E0(t) \/ E1(t) \/ E2(t) \/ E3(t) \/ C0(t) \/ C1(t) \/ C2(t) \/ C3(t) \/ U1(t) \/ U2(t) \/ U3(t) \/ F1(t) \/ F2(t) \/ F3(t) \/ FU1(t) \/ FU2(t) \/ FU3(t) \/ Ret(t)
AllDone == \A t \in Threads : pc[t] = "idle" /\ ip[t] > Len(Scripts[t])
Next == ((\E t \in Threads : Step(t)) /\ UNCHANGED Scripts) \/ (AllDone /\ UNCHANGED vars)
Spec == Init /\ [][Next]_vars /\ WF_vars(Next)

\* ---------------------------------------------------------------- L2 on the model's history
Terminals == { p \in 1..Len(hist) : hist[p].k \in {"cb:e", "cb:c"} }
CallStart(p) == CHOOSE q \in 1..p : hist[q].t = hist[p].t /\ hist[q].i = hist[p].i /\ hist[q].k \in {"call:next", "call:error", "call:complete"}
\* C19: at most one terminal; no callback whose call started after the terminal callback happened
AtMostOneTerminal == Cardinality(Terminals) <= 1
NothingStartedAfterTerminal == \A p \in Terminals : \A q \in (p + 1)..Len(hist) : hist[q].k \in {"cb:n", "cb:e", "cb:c"} => CallStart(q) < p
\* C05: no callback whose call started after unsubscribe() returned
UnsubStops == \A p \in 1..Len(hist) : hist[p].k = "ret:unsub" => \A q \in (p + 1)..Len(hist) : hist[q].k \in {"cb:n", "cb:e", "cb:c"} => CallStart(q) < p
\* the arbiter never loses both terminals: if nobody unsubscribes and some thread signals a terminal, exactly one arrives
NoUnsub == \A t \in Threads : \A i \in 1..Len(Scripts[t]) : Scripts[t][i] # "unsub"
SomeTerminalCall == \E t \in Threads : \E i \in 1..Len(Scripts[t]) : Scripts[t][i] \in {"error", "complete"}
ExactlyOneAtTheEnd == (AllDone /\ NoUnsub /\ SomeTerminalCall) => Cardinality(Terminals) = 1
=============================================================================
