------------------------------ MODULE RxProps ------------------------------
(* L2: what the listed properties demand of a *sequential* execution, and nothing more.

   Every operator here is a predicate over a recorded history `tr` -- a sequence of stimulus records
       [st  |-> [k, a, b, v, e],          the harness stimulus (sub / emit / unsub / query / subj / connect / disconnect)
        obs |-> << [o, u, k, v, w] >>,    what was observed while it ran, in order (see below)
        fin |-> "ok" | "stuck" | "budget" | "panic",
        cnt |-> << n_1 .. n_k >>]         registered-observer count of every harness subject after the stimulus
   -- and is evaluated by TLC in two places with the very same definitions:
     * in RxSeqMC on every history of the implementation-shaped model (L1 => L2 inventory / invariants), and
     * in RxSeqTrace on histories recorded from the real crate (trace validation: the only source of VIOLATION).
   Observed events:  cb(u, n|e|c, v)        callback of harness sink u
                     probe(i, subscribed, inst) / probe(i, issub, b, w = inst)   instrumented source i: the latter is
                                            logged immediately BEFORE each emission attempt of that registration
                     mark(u, unsubret)      Subscription::unsubscribe() of sink u returned
                     ans(u, issub, b)       answer of Subscription::is_subscribed()
                     tap(id, k, v)          side effect of a tap operator
   None of these definitions mentions an internal identifier of the crate or of RxSeq. *)
EXTENDS RxRef

RECURSIVE FlatFrom(_,_)
FlatFrom(tr, i) == IF i > Len(tr) THEN <<>> ELSE [j \in 1..Len(tr[i].obs) |-> [i |-> i, e |-> tr[i].obs[j]]] \o FlatFrom(tr, i + 1)
Flat(tr) == FlatFrom(tr, 1)
IsCb(x, u) == x.e.o = "cb" /\ x.e.u = u
IsTermCb(x, u) == IsCb(x, u) /\ x.e.k \in {"e", "c"}
IsUnsubRet(x, u) == x.e.o = "mark" /\ x.e.k = "unsubret" /\ x.e.u = u
IsAttempt(x) == x.e.o = "probe" /\ x.e.k = "issub"
Sinks == 1..3
SubbedSinks(tr) == { tr[i].st.a : i \in { i \in 1..Len(tr) : tr[i].st.k = "sub" } } \cup { 3 : i \in { i \in 1..Len(tr) : \E j \in 1..Len(tr[i].obs) : tr[i].obs[j].o = "cb" /\ tr[i].obs[j].u = 3 } }
AllFinOk(tr) == \A i \in 1..Len(tr) : tr[i].fin = "ok"

\* ---------------------------------------------------------------- C01: next* then at most one terminal, nothing after
ContractOK(f, u) ==
  /\ \A p, q \in 1..Len(f) : (p < q /\ IsTermCb(f[p], u)) => ~IsCb(f[q], u)
  /\ \A p, q \in 1..Len(f) : (p < q /\ IsTermCb(f[p], u) /\ f[q].e.o = "ans" /\ f[q].e.k = "issub" /\ f[q].e.u = u) => f[q].e.v = 0
C01ok(tr) == LET f == Flat(tr) IN \A u \in Sinks : ContractOK(f, u)

\* ---------------------------------------------------------------- C05: unsubscribe stops delivery, idempotent, is_subscribed
EndedBefore(f, u, q) == \E p \in 1..(q - 1) : IsTermCb(f[p], u) \/ IsUnsubRet(f[p], u)
UnsubOK(tr, f, u) ==
  \* nothing whose emission STARTED after unsubscribe() returned is delivered.  An emission starts with a new stimulus
  \* or with an attempt of an instrumented source; what is already on the call stack when unsubscribe is called is exempt.
  /\ \A p, q \in 1..Len(f) : (p < q /\ IsUnsubRet(f[p], u) /\ IsCb(f[q], u)) =>
        ~(f[q].i > f[p].i \/ \E r \in (p + 1)..(q - 1) : IsAttempt(f[r]))
  \* is_subscribed(): true from subscribe until the first terminal or unsubscribe, false ever after
  /\ \A q \in 1..Len(f) : (f[q].e.o = "ans" /\ f[q].e.k = "issub" /\ f[q].e.u = u) => (f[q].e.v = IF EndedBefore(f, u, q) THEN 0 ELSE 1)
\* unsubscribe again / after a terminal has no effect: that stimulus produces no callback and no source activity
IdemOK(tr, f) ==
  \A i \in 1..Len(tr) : (tr[i].st.k \in {"unsub", "using", "using_panic"} /\ \E p \in 1..Len(f) : f[p].i < i /\ (IsTermCb(f[p], tr[i].st.a) \/ IsUnsubRet(f[p], tr[i].st.a)))
                         => /\ \A j \in 1..Len(tr[i].obs) : tr[i].obs[j].o \in {"mark", "ans"}
                            \* ... and takes nobody out of a hot source: the harness subjects hold as many observers as before the call
                            /\ (i > 1 /\ tr[i].fin = "ok" /\ tr[i - 1].fin = "ok") => tr[i].cnt = tr[i - 1].cnt
C05ok(tr) == LET f == Flat(tr) IN IdemOK(tr, f) /\ \A u \in Sinks : UnsubOK(tr, f, u)

\* ---------------------------------------------------------------- C06: every way a subscription ends tears down everything upstream
\* Stated for histories with exactly one subscriber (so every source subscription was made on its behalf).
OneSink(tr) == SubbedSinks(tr) = {1} /\ Cardinality({ i \in 1..Len(tr) : tr[i].st.k = "sub" }) = 1
EndPos(f, u) == IF \E p \in 1..Len(f) : IsTermCb(f[p], u) \/ IsUnsubRet(f[p], u)
                THEN CHOOSE p \in 1..Len(f) : (IsTermCb(f[p], u) \/ IsUnsubRet(f[p], u)) /\ \A r \in 1..(p - 1) : ~(IsTermCb(f[r], u) \/ IsUnsubRet(f[r], u))
                ELSE 0
C06ok(tr) ==
  LET f == Flat(tr)
      ep == EndPos(f, 1) IN
  (OneSink(tr) /\ ep # 0) =>
     /\ \A q \in (ep + 1)..Len(f) : ~(IsAttempt(f[q]) /\ f[q].e.v = 1)          \* every source sees is_subscribed() = false before its next emission
     /\ \A i \in f[ep].i..Len(tr) : tr[i].fin \in {"ok", "stuck"}                \* producers stop (no exhausted budget); `stuck` is C07's business
     /\ \A i \in f[ep].i..Len(tr) : tr[i].fin = "ok" => \A j \in 1..Len(tr[i].cnt) : tr[i].cnt[j] \in {0, -1}     \* hot sources no longer hold the observer (-1 = count not observable)

\* amb's losers: once another input has signalled, a losing input sees is_subscribed() = false at the latest from its second
\* attempt on (the attempt that discovers it may still see true, and is not delivered).  Stated for amb over two instrumented inputs.
AmbLosersOK(tr, root) ==
  (root.op = "amb" /\ Len(root.in) = 2 /\ root.in[1].op = "probe" /\ root.in[2].op = "probe") =>
    LET f == Flat(tr)
        att == { q \in 1..Len(f) : IsAttempt(f[q]) }
        first == IF att = {} THEN 0 ELSE CHOOSE q \in att : \A r \in att : q <= r
        w == IF first = 0 THEN 0 ELSE f[first].e.u                                   \* the winner: the input that signals first
        lose == { q \in att : f[q].e.u # w }
    IN \A q \in lose : (\E r \in lose : r < q /\ f[r].e.u = f[q].e.u /\ f[r].e.w = f[q].e.w) => f[q].e.v = 0
\* ---------------------------------------------------------------- C07 (single thread): every call returns
C07ok(tr) == AllFinOk(tr)

\* ---------------------------------------------------------------- C02 / C03 / C04 / C14: outputs are the definition's
EmitKinds == {"emit"}
Arr(tr) == [i \in 1..Len(tr) |-> IF tr[i].st.k = "emit" THEN [s |-> tr[i].st.a, inst |-> tr[i].st.b, k |-> tr[i].st.e, v |-> tr[i].st.v]
                                 ELSE IF tr[i].st.k = "subj" THEN [s |-> SubjBase + tr[i].st.a, inst |-> 0, k |-> tr[i].st.e, v |-> tr[i].st.v]
                                 ELSE [s |-> 0, inst |-> 0, k |-> "x", v |-> 0]]
\* hot inputs are well-formed: no event for a registration after that registration's own terminal
\* (a plain Subject has no registration of its own: calls after its terminal are ordinary input for whoever subscribes later)
WFInput(arr) == \A i, j \in 1..Len(arr) : (i < j /\ arr[i].s # 0 /\ arr[i].s < SubjBase /\ arr[i].k \in {"e", "c"}) => ~(arr[j].s = arr[i].s /\ arr[j].inst = arr[i].inst)
RECURSIVE TermWF(_)
TermWF(t) == /\ (t.op = "cold" => \A s \in 1..Len(t.scripts) : WellFormed([i \in 1..Len(t.scripts[s]) |-> TEv(0, t.scripts[s][i].k, t.scripts[s][i].v)]))
             /\ \A i \in 1..Len(t.in) : TermWF(t.in[i])
Observed(f, u) == LET s == SelectSeq(f, LAMBDA x : IsCb(x, u)) IN [p \in 1..Len(s) |-> TEv(s[p].i, s[p].e.k, IF s[p].e.v >= RObsBase THEN RObsBase ELSE s[p].e.v)]
SubStim(tr, u) == IF \E i \in 1..Len(tr) : tr[i].st.k = "sub" /\ tr[i].st.a = u THEN CHOOSE i \in 1..Len(tr) : tr[i].st.k = "sub" /\ tr[i].st.a = u ELSE 0
IsUnsubStim(s, u) == s.st.k \in {"unsub", "using", "using_panic"} /\ s.st.a = u
UnsubStim(tr, u) == IF \E i \in 1..Len(tr) : IsUnsubStim(tr[i], u) THEN CHOOSE i \in 1..Len(tr) : IsUnsubStim(tr[i], u) /\ \A j \in 1..(i - 1) : ~IsUnsubStim(tr[j], u) ELSE 0
\* instance number the leaves get when sink u subscribes: 1 + number of leaf subscriptions seen so far (all leaves must agree)
LeafSubsBefore(tr, su, id) == Cardinality({ <<i, j>> \in (1..(su - 1)) \X (1..8) : j <= Len(tr[i].obs) /\ tr[i].obs[j].o = "probe" /\ tr[i].obs[j].k = "subscribed" /\ tr[i].obs[j].u = id })
\* "ok" | "bad" | "na" (outside the domain of the definition: reactions, ill-formed input, subjects, ambiguous instance numbers, divergence)
RefVerdict(tr, root0, reacts, kind) ==
  \* a panic inside the library on well-formed input within the domain of the definition is not "the function the definition gives"
  LET plain == kind \in {"plain", "replay"}
      root == IF kind = "replay" THEN Retag(root0) ELSE root0
      arr0 == Arr(tr)
      \* (a ReplaySubject that is handed anything after its terminal is ill-formed input for the definition)
      wf == WFInput(arr0) /\ (kind = "replay" => \A i, j \in 1..Len(arr0) : (i < j /\ arr0[i].s >= SubjBase /\ arr0[i].k \in {"e", "c"}) => arr0[j].s # arr0[i].s) IN
  IF RefDomain(root, plain) /\ TermWF(root) /\ ~reacts /\ wf /\ (\E i \in 1..Len(tr) : tr[i].fin \in {"panic", "stuck"}) THEN "bad"      \* (nor is a call that never returns)
  ELSE IF ~(RefDomain(root, plain) /\ TermWF(root) /\ AllFinOk(tr) /\ ~reacts /\ wf) THEN "na"
  \* inner probe-2 instances are numbered in creation order across ALL subscribers: "k-th outer item = instance k" is the real
  \* numbering only while one sink subscribes (or nothing is ever sent to an inner probe)
  ELSE IF AnyProbe2(root) /\ ~OneSink(tr) /\ (\E i \in 1..Len(tr) : Arr(tr)[i].s = 2) THEN "na"
  ELSE LET f == Flat(tr)
           arr == Arr(tr)
           ids == LeafIds(root)
           Ver(u) == LET su == SubStim(tr, u)
                         cs == { LeafSubsBefore(tr, su, ids[i]) : i \in 1..Len(ids) }
                         m == IF cs = {} THEN 1 ELSE 1 + CHOOSE c \in cs : TRUE
                         x == Ref(root, su, m, arr)
                         uu == UnsubStim(tr, u)
                         cut == IF uu = 0 THEN x ELSE SelectSeq(x, LAMBDA e : e.t < uu)
                     IN IF su = 0 THEN "ok" ELSE IF Cardinality(cs) > 1 \/ Diverged(x) THEN "na"
                        ELSE IF Observed(f, u) = cut THEN "ok" ELSE "bad"
           vs == { Ver(u) : u \in {1, 2} }
       IN IF "bad" \in vs THEN "bad" ELSE IF "na" \in vs THEN "na" ELSE "ok"
\* side-effect operators act for every subscription: with tap at the root, each stimulus shows the same events on the tap as at the sinks
RECURSIVE NTaps(_)
NTaps(t) == (IF t.op = "tap" THEN 1 ELSE 0) + (IF t.in = <<>> THEN 0 ELSE NTaps(t.in[1]) + (IF Len(t.in) > 1 THEN NTaps(t.in[2]) ELSE 0))
TapOK(tr, root) == (root.op = "tap" /\ NTaps(root) = 1) =>
  \A i \in 1..Len(tr) : LET P(o) == LET s == SelectSeq(tr[i].obs, LAMBDA e : e.o = o) IN [j \in 1..Len(s) |-> <<s[j].k, s[j].v>>] IN P("tap") = P("cb")

HasReact(c) == c.react.unsub_at # 0 \/ c.react.emit_at # 0 \/ c.react.sub_at # 0
HasPublish(c) == \E i \in 1..Len(c.conn) : c.conn[i].kind = "publish"

\* ---------------------------------------------------------------- C10: subjects multicast to exactly the current observers; late joiners get history
\* The four automata exactly as the statement gives them.  Domain: the harness subject 1 observed directly (root = subject) or
\* through map(+1), no re-entrant reactions.  Where the statement is silent (calls after a terminal, a late subscriber of an
\* AsyncSubject) the monitor stops judging deliveries and keeps only "holds no observer after a terminal".
SubjRoot(root) == root.op = "subject" \/ (root.op = "map" /\ root.f = "inc" /\ root.in[1].op = "subject")
SubjMap(root, v) == IF root.op = "map" THEN v + root.a ELSE v
Sbj0(kind) == [live |-> {}, items |-> <<>>, last |-> IF kind = "behavior" THEN <<9>> ELSE <<>>, term |-> <<>>, open |-> TRUE, reused |-> FALSE]
NoOut == [u \in Sinks |-> <<>>]
\* expected deliveries of one stimulus, per sink, and the next state of the automaton
SbjStep(s, kind, root, st) ==
  LET M(v) == SubjMap(root, v) IN
  CASE st.k = "subj" /\ st.e = "n" ->
         [s |-> [s EXCEPT !.items = Append(@, st.v), !.last = <<st.v>>],
          out |-> [u \in Sinks |-> IF u \in s.live /\ kind # "async" THEN << <<"n", M(st.v)>> >> ELSE <<>>]]
    [] st.k = "subj" ->       \* error / complete: every current observer gets the terminal (AsyncSubject: the last item first, on completion)
         \* (a plain Subject keeps no memory of the terminal: it stays usable, with no observers, and is judged on)
         [s |-> [s EXCEPT !.live = {}, !.term = <<[k |-> st.e, v |-> st.v]>>, !.open = (kind = "plain")],
          out |-> [u \in Sinks |-> IF u \notin s.live THEN <<>>
                                   ELSE (IF kind = "async" /\ st.e = "c" /\ s.last # <<>> THEN << <<"n", M(s.last[1])>> >> ELSE <<>>)
                                        \o << <<st.e, IF st.e = "e" THEN st.v ELSE 0>> >>]]
    [] st.k = "sub" ->
         LET u == st.a IN
         CASE kind = "behavior" -> [s |-> [s EXCEPT !.live = @ \cup {u}], out |-> [NoOut EXCEPT ![u] = << <<"n", M(s.last[1])>> >>]]
           [] kind = "replay" -> [s |-> [s EXCEPT !.live = @ \cup {u}], out |-> [NoOut EXCEPT ![u] = [i \in 1..Len(s.items) |-> <<"n", M(s.items[i])>>]]]
           [] OTHER -> [s |-> [s EXCEPT !.live = @ \cup {u}], out |-> NoOut]
    [] st.k = "unsub" -> [s |-> [s EXCEPT !.live = @ \ {st.a}], out |-> NoOut]
    [] OTHER -> [s |-> s, out |-> NoOut]
PerSink(obs, u) == LET q == SelectSeq(obs, LAMBDA e : e.o = "cb" /\ e.u = u) IN [i \in 1..Len(q) |-> <<q[i].k, q[i].v>>]
RECURSIVE SbjRun(_,_,_,_,_)
SbjRun(tr, i, s, kind, root) ==
  IF i > Len(tr) THEN TRUE
  ELSE IF ~s.open THEN
       \* after the first terminal the statement still fixes what a NEW subscriber is handed: a ReplaySubject every past item in
       \* order followed by the stored terminal, a BehaviorSubject the stored terminal; everything else (further calls on a
       \* terminated Behavior / Replay / AsyncSubject, late subscribers of an AsyncSubject) is left open and not judged.  A plain
       \* Subject never gets here: after a terminal it is an empty Subject again and "exactly the observers subscribed at that
       \* moment" goes on applying
       /\ (tr[i].st.k = "sub" /\ kind \in {"replay", "behavior"} /\ ~s.reused) =>
            PerSink(tr[i].obs, tr[i].st.a) = (IF kind = "replay" THEN [j \in 1..Len(s.items) |-> <<"n", SubjMap(root, s.items[j])>>] ELSE <<>>)
                                              \o << <<s.term[1].k, IF s.term[1].k = "e" THEN s.term[1].v ELSE 0>> >>
       /\ SbjRun(tr, i + 1, [s EXCEPT !.reused = @ \/ tr[i].st.k = "subj"], kind, root)
  ELSE LET r == SbjStep(s, kind, root, tr[i].st) IN
       /\ \A u \in Sinks : PerSink(tr[i].obs, u) = r.out[u]
       /\ (tr[i].cnt # <<>> /\ tr[i].cnt[1] # -1 => tr[i].cnt[1] = Cardinality(r.s.live))       \* holds exactly the current observers
       /\ SbjRun(tr, i + 1, r.s, kind, root)
C10verdict(tr, root, c) ==
  IF SubjRoot(root) /\ Len(c.sbj) >= 1 /\ ~HasReact(c) /\ (\E i \in 1..Len(tr) : tr[i].fin = "panic") THEN "bad"      \* a panic is no delivery
  ELSE IF ~(SubjRoot(root) /\ Len(c.sbj) >= 1 /\ ~HasReact(c) /\ AllFinOk(tr)) THEN "na"
  ELSE IF SbjRun(tr, 1, Sbj0(c.sbj[1]), c.sbj[1], root) THEN "ok" ELSE "bad"

\* ---------------------------------------------------------------- C13: connectables share one source subscription
\* Domain: root = the connectable's observable (conn 1) over an instrumented source (probe / cold / from_iter), no reactions.
\*   SrcSubs(i)    `subscribed` events of the source during stimulus i
\*   liveAfter(i)  subscribers present after stimulus i
SrcId(t) == IF t.op \in {"probe", "cold"} THEN t.a ELSE 0
SubsIn(tr, i, id) == Len(SelectSeq(tr[i].obs, LAMBDA e : e.o = "probe" /\ e.k = "subscribed" /\ e.u = id))
RECURSIVE LiveAfter(_,_)
LiveAfter(tr, i) == IF i = 0 THEN {} ELSE
  LET prev == LiveAfter(tr, i - 1)
      endedHere == { u \in Sinks : \E j \in 1..Len(tr[i].obs) : (tr[i].obs[j].o = "cb" /\ tr[i].obs[j].u = u /\ tr[i].obs[j].k \in {"e", "c"}) }
      st == tr[i].st
  IN ((IF st.k = "sub" THEN prev \cup {st.a} ELSE IF st.k = "unsub" THEN prev \ {st.a} ELSE prev) \ endedHere)
ItemsOf(tr, u, upto) == LET f == SelectSeq(FlatFrom(SubSeq(tr, 1, upto), 1), LAMBDA x : IsCb(x, u) /\ x.e.k = "n") IN [i \in 1..Len(f) |-> f[i].e.v]
\* what a synchronous source hands its first subscription: from_iter = the items and complete; cold = its first script up to its terminal
SyncOutput(src) ==
  IF src.op = "from_iter" THEN [k \in 1..(Len(src.items) + 1) |-> IF k <= Len(src.items) THEN <<"n", src.items[k]>> ELSE <<"c", 0>>]
  ELSE LET sc == src.scripts[1]
           RECURSIVE Cut(_)
           Cut(k) == IF k > Len(sc) THEN <<>> ELSE IF sc[k].k \in {"e", "c"} THEN << <<sc[k].k, sc[k].v>> >> ELSE << <<sc[k].k, sc[k].v>> >> \o Cut(k + 1)
       IN Cut(1)
\* the shared source itself terminated before stimulus i (a hot source was sent a terminal; a synchronous one ends with its script)
SrcEnded(tr, i, src, id) ==
  \/ src.op = "from_iter"
  \/ (src.op = "cold" /\ \E k \in 1..Len(src.scripts[1]) : src.scripts[1][k].k \in {"e", "c"})
  \/ \E j \in 1..(i - 1) : tr[j].st.k = "emit" /\ tr[j].st.a = id /\ tr[j].st.e \in {"e", "c"}
                           /\ \E q \in 1..Len(tr[j].obs) : tr[j].obs[q].o = "probe" /\ tr[j].obs[q].k = "issub" /\ tr[j].obs[q].v = 1
C13verdict(tr, root, c) ==
  IF root.op = "conn" /\ Len(c.conn) >= 1 /\ ~HasReact(c) /\ (\E i \in 1..Len(tr) : tr[i].fin = "panic") THEN "bad"
  ELSE IF ~(root.op = "conn" /\ Len(c.conn) >= 1 /\ ~HasReact(c) /\ AllFinOk(tr)) THEN "na"
  ELSE LET kind == c.conn[1].kind
           src == c.conn[1].term
           id == SrcId(src)
           n == Len(tr)
           f == Flat(tr)
           connected(i) == \E j \in 1..i : tr[j].st.k = "connect"
           \* stimuli at which the single source subscription must have been released: publish -> disconnect; others -> last subscriber left
           \* (... or the source ended its subscription itself by a terminal)
           released(i) == \/ (tr[i].st.k = "emit" /\ tr[i].st.a = id /\ tr[i].st.e \in {"e", "c"}
                               /\ \E j \in 1..Len(tr[i].obs) : tr[i].obs[j].o = "probe" /\ tr[i].obs[j].k = "issub" /\ tr[i].obs[j].v = 1)
                          \/ IF kind = "publish" THEN tr[i].st.k = "disconnect"
                             ELSE tr[i].st.k = "unsub" /\ LiveAfter(tr, i) = {} /\ LiveAfter(tr, i - 1) # {}
       IN IF (/\ (id # 0 =>
                   \* the source is subscribed only when the statement says so ...
                   /\ (\A i \in 1..n : SubsIn(tr, i, id) > 0 =>
                          (IF kind = "publish" THEN tr[i].st.k = "connect" ELSE (tr[i].st.k = "sub" /\ LiveAfter(tr, i - 1) = {})))
                   \* ... at most once at a time: a further source subscription needs an earlier release
                   /\ (\A i \in 1..n : SubsIn(tr, i, id) <= 1)
                   /\ (\A i, j \in 1..n : (i < j /\ SubsIn(tr, i, id) > 0 /\ SubsIn(tr, j, id) > 0) => \E k \in i..(j - 1) : released(k))
                   \* ref_count / replay subscribe the source when the first subscriber arrives
                   \* (ref_count connects again for every subscriber that finds nobody there, as long as the source itself has not
                   \*  terminated - the statement is silent about a terminated source; replay must NOT re-run the source: "each item once")
                   /\ (kind # "publish" => \A i \in 1..n : (tr[i].st.k = "sub" /\ LiveAfter(tr, i - 1) = {}
                                                            /\ (IF kind = "replay" THEN ~\E j \in 1..(i - 1) : SubsIn(tr, j, id) > 0 ELSE ~SrcEnded(tr, i, src, id))) => SubsIn(tr, i, id) = 1)
                   /\ (kind = "publish" => \A i \in 1..n : tr[i].st.k = "connect" => SubsIn(tr, i, id) = 1)
                   \* releasing stops the source: from then on every attempt of the source sees is_subscribed() = false
                   /\ (\A i \in 1..n : released(i) => \A q \in 1..Len(f) : (f[q].i > i /\ IsAttempt(f[q]) /\ f[q].e.u = id /\ f[q].e.v = 1) => \E k \in (i + 1)..f[q].i : SubsIn(tr, k, id) > 0))
               \* what the shared source emits reaches every subscriber that is present: a hot source's item that was emitted while
               \* connected (its attempt saw is_subscribed() = true) is delivered, as is, to each of them (publish / ref_count) ...
               /\ (kind \in {"publish", "ref_count"} /\ src.op = "probe" =>
                      \A i \in 1..n : (tr[i].st.k = "emit" /\ tr[i].st.a = id /\ tr[i].st.e = "n" /\ \E j \in 1..Len(tr[i].obs) : (tr[i].obs[j].o = "probe" /\ tr[i].obs[j].k = "issub" /\ tr[i].obs[j].v = 1)) =>
                         \A u \in LiveAfter(tr, i - 1) : PerSink(tr[i].obs, u) = << <<"n", tr[i].st.v>> >>)
               \* ... and the subscriber whose arrival connects ref_count to a synchronous source gets that source's whole output
               /\ (kind = "ref_count" /\ src.op \in {"from_iter", "cold"} =>
                      \A i \in 1..n : (tr[i].st.k = "sub" /\ LiveAfter(tr, i - 1) = {} /\ ~\E j \in 1..(i - 1) : tr[j].st.k = "sub") =>
                         PerSink(tr[i].obs, tr[i].st.a) = SyncOutput(src))
               \* every subscriber present sees the same items (publish / ref_count); replay: the whole sequence from the beginning, each once
               /\ (\A i \in 1..n : (tr[i].st.k = "emit" /\ tr[i].st.e = "n") =>
                      \A u \in LiveAfter(tr, i - 1) : \A w \in LiveAfter(tr, i - 1) : PerSink(tr[i].obs, u) = PerSink(tr[i].obs, w))
               /\ (kind = "replay" => \A i \in 1..n : \A u, w \in LiveAfter(tr, i) : ItemsOf(tr, u, i) = ItemsOf(tr, w, i))
               /\ (kind = "replay" /\ id # 0 /\ src.op = "probe" => \A i \in 1..n : \A u \in LiveAfter(tr, i) :
                      ItemsOf(tr, u, i) = LET a == SelectSeq(SubSeq(tr, 1, i), LAMBDA x : x.st.k = "emit" /\ x.st.e = "n" /\ \E j \in 1..Len(x.obs) : (x.obs[j].o = "probe" /\ x.obs[j].k = "issub") /\ x.obs[j].v = 1)
                                         IN [k \in 1..Len(a) |-> a[k].st.v]))
          THEN "ok" ELSE "bad"

\* ---------------------------------------------------------------- C17: a finished subscription releases the user's callbacks
\* leakSink / leakOps: a reference-counted token captured by the subscriber's three callbacks / by every closure handed to an
\* operator is still alive after the harness dropped every handle it holds.
AllSinksEnded(tr) == LET f == Flat(tr) IN SubbedSinks(tr) # {} /\ \A u \in SubbedSinks(tr) : EndPos(f, u) # 0
C17ok(tr, leakSink, leakOps) == (AllFinOk(tr) /\ AllSinksEnded(tr)) => (~leakSink /\ ~leakOps)

\* ---------------------------------------------------------------- all verdicts of one history
V(b) == IF b THEN "ok" ELSE "bad"      \* verdicts are strings: "ok" | "bad" | "na"
Judge(tr, root, c, leakSink, leakOps) ==
  LET rv == RefVerdict(tr, root, HasReact(c), IF Len(c.sbj) >= 1 THEN c.sbj[1] ELSE "none") IN
  [C01 |-> V(C01ok(tr)), C05 |-> V(C05ok(tr)), C06 |-> V(HasPublish(c) \/ (C06ok(tr) /\ (HasReact(c) \/ ~OneSink(tr) \/ AmbLosersOK(tr, root)))), C07 |-> V(C07ok(tr)),
   REF |-> rv, TAP |-> V(rv = "na" \/ TapOK(tr, root)), C17 |-> V(C17ok(tr, leakSink, leakOps)),
   C10 |-> C10verdict(tr, root, c), C13 |-> C13verdict(tr, root, c)]
=============================================================================
