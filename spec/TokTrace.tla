------------------------------ MODULE TokTrace ------------------------------
(* C17, "any emitted item": the item-token runs of the harness (rt/harness/src/tok.rs) judged by TLC.
   One line per (operator, way of ending): a hot source fed token-carrying items through the operator to a subscriber; the
   subscription is ended (source completes / source fails / unsubscribe), every handle the caller holds is dropped, and the
   tokens still alive are counted.  The property, as the statement has it: after the subscription ended and the handles
   are gone, nothing in the library still owns an emitted item. *)
EXTENDS Json, IOUtils, TLC, Sequences, Naturals
Rec == ndJsonDeserialize(IOEnv.TRACE)
VARIABLE l
ItemsReleased(r) == r.fin = "ok" /\ r.live = 0
Init == l = 1
Next == /\ l <= Len(Rec) /\ l' = l + 1
        /\ (Rec[l].ev = "tok" => PrintT(ToJson([op |-> Rec[l].op, ending |-> Rec[l].ending, emitted |-> Rec[l].emitted, delivered |-> Rec[l].delivered,
                                                live |-> Rec[l].live, fin |-> Rec[l].fin, verdict |-> IF ItemsReleased(Rec[l]) THEN "ok" ELSE "bad"])))
Spec == Init /\ [][Next]_l
Consumed == IF TLCGet("stats").diameter = Len(Rec) + 1 THEN TRUE
            ELSE Print(<<"NOT-CONSUMED: validation stopped before line", TLCGet("stats").diameter>>, FALSE)
=============================================================================
