------------------------------ MODULE RxSeq ------------------------------
(* L1: implementation-shaped, big-step, sequential specification of another-rxrust.

   One RECURSIVE operator per Rust function (Observer::next/error/complete/unsubscribe, the StreamController's
   sink_* / upstream_abort_observe / finalize, every operator's three closures, every creation function, the
   subjects and the connectables), over one "heap" record h.  A *stimulus* of the harness (subscribe, emit into a
   probe source, unsubscribe, subject call, connect ...) is one application of these operators; its value is the
   new heap and the observable events it produced (h.out).

   All items are integers; lists / tuples / materials / inner observables are integer-coded and the codecs are
   explicit `map` stages of the Rust pipeline built by the harness (see Enc* below).
   Locks the code holds ACROSS a call into other code are tracked in h.held so that same-thread re-entrancy
   deadlocks are *predicted* (verdict h.stuck) -- DESIGN.md 3.2.
   h.rev (default: the constant h_rev): iteration order of the crate's HashMaps (facade map: insertion order, or its reverse). *)
EXTENDS Integers, Sequences, FiniteSets, TLC
CONSTANT h_rev

\* ---------------------------------------------------------------- small helpers
Min(a, b) == IF a < b THEN a ELSE b
NoTd == [k |-> "none", a |-> 0, b |-> 0]
NewObs(hd) == [n |-> TRUE, e |-> TRUE, c |-> TRUE, td |-> NoTd, hd |-> hd]
NoReact == [seen |-> 0, unsub_at |-> 0, emit_at |-> 0, sub_at |-> 0, emit_j |-> 1, handle |-> 0, live |-> FALSE]
Hd(k, a, b, s) == [k |-> k, a |-> a, b |-> b, s |-> s]
SinkHd(u) == Hd("sink", u, 0, 0)
InHd(c, port, serial) == Hd("in", c, port, serial)
FwdHd(o) == Hd("fwd", o, 0, 0)
ToSbjHd(j) == Hd("tosbj", j, 0, 0)
Fuel == 40
EmptyHeap == [ obs |-> <<>>, ctl |-> <<>>, regs |-> <<>>, sinkcnt |-> <<>>, out |-> <<>>, fuel |-> Fuel, div |-> FALSE,
               sbj |-> <<>>, conn |-> <<>>, slots |-> <<>>, held |-> <<>>, stuck |-> "", rev |-> h_rev ]
Ev5(o, u, k, v, w) == [o |-> o, u |-> u, k |-> k, v |-> v, w |-> w]
Ev(o, u, k, v) == Ev5(o, u, k, v, 0)
Emit(h, ev) == [h EXCEPT !.out = Append(@, ev)]
IsSub(h, o) == h.obs[o].n /\ h.obs[o].e /\ h.obs[o].c
Order(hh, seq) == IF hh.rev THEN [i \in 1..Len(seq) |-> seq[Len(seq) + 1 - i]] ELSE seq

\* integer codecs (items are small naturals 0..9)
ObsBase == 100000000                       \* value ObsBase + j denotes "observable of subject j"
RECURSIVE EncList(_)
EncList(xs) == IF xs = <<>> THEN 1 ELSE EncList(SubSeq(xs, 1, Len(xs) - 1)) * 10 + xs[Len(xs)]   \* <<a,b>> -> 1ab
EncMatN(x) == x
EncMatE(e) == 1000 + e
EncMatC == 2000
ApplyF(f, p, x) == CASE f = "inc" -> x + p [] f = "mul" -> x * p [] f = "const" -> p [] f = "mod" -> x % p [] f = "b2i" -> x [] OTHER -> x
ApplyP(f, p, x) == CASE f = "lt" -> x < p [] f = "ge" -> x >= p [] f = "even" -> x % 2 = 0 [] f = "true" -> TRUE [] f = "eq" -> x = p
                     [] f = "false" -> FALSE [] f = "nfalse" -> TRUE
                     [] f = "nlt" -> ~(x < p) [] f = "nge" -> ~(x >= p) [] f = "neven" -> x % 2 # 0 [] f = "ntrue" -> FALSE [] f = "neq" -> x # p [] OTHER -> FALSE
RECURSIVE DecList(_)
DecList(code) == IF code <= 1 THEN <<>> ELSE Append(DecList(code \div 10), code % 10)
AllEq(xs) == \A i \in 1..Len(xs) : xs[i] = xs[1]

\* ---------------------------------------------------------------- term constructors (uniform records)
T(op, a, b, f, id, in, items, scripts) == [op |-> op, a |-> a, b |-> b, f |-> f, id |-> id, in |-> in, items |-> items, scripts |-> scripts]
Leaf(op, a) == T(op, a, 0, "", 0, <<>>, <<>>, <<>>)
U(op, a, f, x) == T(op, a, 0, f, 0, <<x>>, <<>>, <<>>)

RECURSIVE CallNext(_,_,_), CallError(_,_,_), CallComplete(_,_), Unsub(_,_), Finalize(_,_), RunTd(_,_), SlotUnsub(_,_),
          SinkNext(_,_,_), SinkError(_,_,_), SinkComplete(_,_,_), SinkCompleteForce(_,_), UpAbort(_,_,_), UnsubAll(_,_),
          Subscribe(_,_,_), Subscribe0(_,_,_), SubscribeInputs(_,_,_), OnNext(_,_,_,_), OnError(_,_,_,_), OnComplete(_,_,_),
          RunScript(_,_,_,_), FromIter(_,_,_), EmitWhileSub(_,_,_), StartWith(_,_,_), RepeatLoop(_,_,_),
          SubjNext(_,_,_), SubjError(_,_,_), SubjComplete(_,_), SubjSubscribe(_,_,_), Broadcast(_,_,_,_), PlainSubscribe(_,_,_),
          HookSub(_,_,_), HookUnsub(_,_,_), ReplayItems(_,_,_), ZipDrain(_,_), ConcatNext(_,_), GroupTerminal(_,_,_,_), TermReact(_,_,_)

\* ---------------------------------------------------------------- held locks (same-thread re-entrancy)
Conflicts(h, l, m) == \E i \in 1..Len(h.held) : h.held[i].l = l /\ (m = "W" \/ h.held[i].m = "W")
Acquire(h, l, m) == IF h.stuck # "" THEN h ELSE IF Conflicts(h, l, m) THEN [h EXCEPT !.stuck = l] ELSE [h EXCEPT !.held = Append(@, [l |-> l, m |-> m])]
Release(h) == IF h.stuck # "" THEN h ELSE [h EXCEPT !.held = SubSeq(@, 1, Len(@) - 1)]
Touch(h, l, m) == IF h.stuck # "" THEN h ELSE IF Conflicts(h, l, m) THEN [h EXCEPT !.stuck = l] ELSE h
Lk(name, c) == name \o ToString(c)

\* ---------------------------------------------------------------- Observer
RunTd(h, td) ==
  CASE td.k = "fin" -> Finalize(h, td.a)
    [] td.k = "sbjrm" ->
         LET h1 == [h EXCEPT !.sbj[td.a].map = SelectSeq(@, LAMBDA p : p.s # td.b)]
         IN HookUnsub(h1, td.a, Len(h1.sbj[td.a].map))
    [] td.k = "slot" -> SlotUnsub(Touch(h, "slot", "R"), td.a)
    [] OTHER -> h
SlotUnsub(h, i) ==
  IF h.stuck # "" \/ ~h.slots[i].some \/ ~h.slots[i].live THEN h
  ELSE Unsub([h EXCEPT !.slots[i].live = FALSE], h.slots[i].obs)
Unsub(h, o) ==
  IF h.stuck # "" THEN h ELSE
  LET h1 == [h EXCEPT !.obs[o].n = FALSE, !.obs[o].e = FALSE, !.obs[o].c = FALSE]
      h2 == RunTd(h1, h1.obs[o].td)
  IN IF h2.stuck # "" THEN h2 ELSE [h2 EXCEPT !.obs[o].td = NoTd]

\* The user's next-callback (harness sink u).  Reactions are drawn from a fixed family (h.sinkcnt[u]):
\*   unsub_at = k : on the k-th item call unsubscribe() on the sink's own Subscription (if subscribe() already returned it)
\*   emit_at  = k : on the k-th item call next(7) on subject emit_j            (re-entrant emission)
\*   emit_at  = -1: from inside its TERMINAL callback call next(7) and then the other terminal on the first observer an instrumented
\*                  source (probe / cold) was handed - a user-written hot source driven re-entrantly        (C01 "nothing after the terminal")
\*   sub_at   = k : on the k-th item subscribe sink 3 to subject emit_j        (re-entrant subscription)
\*   sub_at   = -k: on the k-th item subscribe sink 3 to the connectable 1 again (re-entrant subscription to the observable it is called from)
\* unsubscribe() on sink u's own Subscription from inside the library's call chain (if subscribe() already returned it)
UnsubFromInside(h, u) ==
  LET sc == h.sinkcnt[u] IN
  IF sc.handle # 0 /\ sc.live
  THEN LET hu == Unsub([h EXCEPT !.sinkcnt[u].live = FALSE], sc.handle)
       IN IF hu.stuck # "" THEN hu ELSE Emit(hu, Ev("mark", u, "unsubret", 0))
  ELSE h
SinkReact(h, u) ==
  LET sc == h.sinkcnt[u]
      cnt == sc.seen + 1
      h2 == [h EXCEPT !.sinkcnt[u].seen = cnt]
      h3 == IF sc.unsub_at = cnt /\ sc.handle # 0 /\ sc.live
            THEN LET hu == Unsub([h2 EXCEPT !.sinkcnt[u].live = FALSE], sc.handle)
                 IN IF hu.stuck # "" THEN hu ELSE Emit(hu, Ev("mark", u, "unsubret", 0))
            ELSE h2
      h4 == IF h3.stuck = "" /\ sc.emit_at = cnt THEN SubjNext(h3, sc.emit_j, 7) ELSE h3
  IN IF h4.stuck = "" /\ sc.sub_at = cnt
     THEN LET o == Len(h4.obs) + 1
          IN Subscribe([h4 EXCEPT !.obs = Append(@, NewObs(SinkHd(3)))], Leaf("subject", sc.emit_j), o)
     ELSE IF h4.stuck = "" /\ sc.sub_at = 0 - cnt
     THEN LET o == Len(h4.obs) + 1
          IN Subscribe([h4 EXCEPT !.obs = Append(@, NewObs(SinkHd(3)))], Leaf("conn", 1), o)
     ELSE h4

TermReact(h, u, k) ==
  LET sc == h.sinkcnt[u]
      ids == { i \in 1..Len(h.regs) : h.regs[i] # <<>> } IN
  IF h.stuck # "" \/ sc.emit_at # 0 - 1 \/ ids = {} THEN h
  ELSE LET i == CHOOSE x \in ids : \A y \in ids : x <= y
           o == h.regs[i][1]
           h1 == CallNext(h, o, 7)
       IN IF k = "e" THEN CallComplete(h1, o) ELSE CallError(h1, o, 6)

CallNext(h, o, x) ==
  IF h.stuck # "" \/ ~h.obs[o].n THEN h
  ELSE LET hd == h.obs[o].hd IN
       CASE hd.k = "sink" -> SinkReact(Emit(h, Ev("cb", hd.a, "n", x)), hd.a)
         [] hd.k = "fwd" -> CallNext(h, hd.a, x)
         [] hd.k = "tosbj" -> SubjNext(h, hd.a, x)
         [] OTHER -> OnNext(h, o, hd, x)
\* error() / complete(): take the next slot (the arbiter between racing terminals); whoever emptied it clears the other
\* terminal slot, takes its own and delivers
CallError(h, o, x) ==
  IF h.stuck # "" \/ ~h.obs[o].n THEN h
  ELSE LET had == h.obs[o].e
           h1 == [h EXCEPT !.obs[o].n = FALSE, !.obs[o].c = FALSE, !.obs[o].e = FALSE]
           hd == h.obs[o].hd IN
       IF ~had THEN h1 ELSE
       CASE hd.k = "sink" -> TermReact(Emit(h1, Ev("cb", hd.a, "e", x)), hd.a, "e")
         [] hd.k = "fwd" -> CallError(h1, hd.a, x)
         [] hd.k = "tosbj" -> SubjError(h1, hd.a, x)
         [] OTHER -> OnError(h1, o, hd, x)
CallComplete(h, o) ==
  IF h.stuck # "" \/ ~h.obs[o].n THEN h
  ELSE LET had == h.obs[o].c
           h1 == [h EXCEPT !.obs[o].n = FALSE, !.obs[o].e = FALSE, !.obs[o].c = FALSE]
           hd == h.obs[o].hd IN
       IF ~had THEN h1 ELSE
       CASE hd.k = "sink" -> TermReact(Emit(h1, Ev("cb", hd.a, "c", 0)), hd.a, "c")
         [] hd.k = "fwd" -> CallComplete(h1, hd.a)
         [] hd.k = "tosbj" -> SubjComplete(h1, hd.a)
         [] OTHER -> OnComplete(h1, o, hd)

\* ---------------------------------------------------------------- StreamController
UnsubAll(h, ups) == IF ups = <<>> \/ h.stuck # "" THEN h ELSE UnsubAll(Unsub(h, Head(ups).o), Tail(ups))
Finalize(h, c) ==
  IF h.stuck # "" THEN h ELSE
  LET lk == Lk("ups", c)
      h0 == Acquire(h, lk, "R")
      h1 == Release(UnsubAll(h0, Order(h0, h0.ctl[c].ups)))
      h2 == IF h1.stuck # "" THEN h1 ELSE [Touch(h1, lk, "W") EXCEPT !.ctl[c].ups = <<>>]
      sub == h2.ctl[c].sub
  IN IF h2.stuck # "" THEN h2 ELSE IF IsSub(h2, sub) THEN Unsub(h2, sub) ELSE h2
UpAbort(h, c, serial) ==
  IF h.stuck # "" THEN h ELSE
  LET lk == Lk("ups", c)
      h0 == Acquire(h, lk, "W")
      hit == IF h0.stuck # "" THEN <<>> ELSE SelectSeq(h0.ctl[c].ups, LAMBDA p : p.s = serial)
      h1 == IF h0.stuck # "" THEN h0 ELSE [h0 EXCEPT !.ctl[c].ups = SelectSeq(@, LAMBDA p : p.s # serial)]
  IN IF h1.stuck # "" THEN h1 ELSE Release(IF hit = <<>> THEN h1 ELSE Unsub(h1, hit[1].o))
SinkNext(h, c, x) == IF h.stuck # "" THEN h ELSE IF IsSub(h, h.ctl[c].sub) THEN CallNext(h, h.ctl[c].sub, x) ELSE Finalize(h, c)
SinkError(h, c, x) == IF h.stuck # "" THEN h ELSE IF IsSub(h, h.ctl[c].sub) THEN Finalize(CallError(h, h.ctl[c].sub, x), c) ELSE Finalize(h, c)
SinkComplete(h, c, serial) ==
  IF h.stuck # "" THEN h ELSE
  IF IsSub(h, h.ctl[c].sub)
  THEN LET hit == SelectSeq(h.ctl[c].ups, LAMBDA p : p.s = serial)
           h1 == [Touch(h, Lk("ups", c), "W") EXCEPT !.ctl[c].ups = SelectSeq(@, LAMBDA p : p.s # serial)]
           done == h1.ctl[c].ups = <<>>                      \* decided under the lock, before the completed input is unsubscribed
           h2 == IF h1.stuck # "" \/ hit = <<>> THEN h1 ELSE Unsub(h1, hit[1].o)      \* (outside the lock)
       IN IF h2.stuck # "" THEN h2 ELSE IF done THEN Finalize(CallComplete(h2, h2.ctl[c].sub), c) ELSE h2
  ELSE Finalize(h, c)
SinkCompleteForce(h, c) ==
  IF h.stuck # "" THEN h ELSE Finalize(IF IsSub(h, h.ctl[c].sub) THEN CallComplete(h, h.ctl[c].sub) ELSE h, c)

CtlRec(term, sub) == [term |-> term, sub |-> sub, ups |-> <<>>, serial |-> 0, n |-> 0, has |-> FALSE, acc |-> 0, buf |-> <<>>,
                      qs |-> <<>>, win |-> 0, flag |-> FALSE, pend |-> <<>>, groups |-> <<>>,
                      tp |-> [n |-> TRUE, e |-> TRUE, c |-> TRUE]]      \* tp: the slots of tap's own observer (one per subscription)
NewCtl(h, term, sub) ==
  LET c == Len(h.ctl) + 1
  IN << [h EXCEPT !.ctl = Append(@, CtlRec(term, sub)), !.obs[sub].td = [k |-> "fin", a |-> c, b |-> 0]], c >>
\* (fix: when the controller's subscriber has already ended, the new observer is born unsubscribed and is not registered,
\*  so that Subscribe does nothing for it)
NewObserver(h, c, port) ==
  LET serial == h.ctl[c].serial
      o == Len(h.obs) + 1
  IN IF IsSub(h, h.ctl[c].sub)
     THEN << [h EXCEPT !.obs = Append(@, NewObs(InHd(c, port, serial))),
                       !.ctl[c].serial = serial + 1,
                       !.ctl[c].ups = Append(@, [s |-> serial, o |-> o])], o >>
     ELSE << [h EXCEPT !.obs = Append(@, [NewObs(InHd(c, port, serial)) EXCEPT !.n = FALSE, !.e = FALSE, !.c = FALSE]),
                       !.ctl[c].serial = serial + 1], o >>
NewSubject(h, kind, hook) ==
  << [h EXCEPT !.sbj = Append(@, [kind |-> kind, map |-> <<>>, serial |-> 0, items |-> <<>>, last |-> [has |-> FALSE, v |-> 0],
                                   err |-> [has |-> FALSE, v |-> 0], completed |-> FALSE, hook |-> hook])], Len(h.sbj) + 1 >>

\* ---------------------------------------------------------------- operators: next
PushCap(buf, x, n) == LET b == Append(buf, x) IN IF Len(b) > n THEN Tail(b) ELSE b
OnNext(h, o, hd, x) ==
  LET c == hd.a
      t == h.ctl[c].term
      op == t.op
      st == h.ctl[c] IN
  CASE op \in {"identity", "merge", "retry", "retry_when", "on_error_resume_next", "concat", "map_to_any"} -> SinkNext(h, c, x)
    [] op = "flat_map" ->
         IF hd.b = 0 THEN   \* outer item: subscribe the inner observable on a new observer (port 1)
           LET inner == CASE t.f = "obs" -> Leaf("subject", x - ObsBase)
                          [] t.f = "just" -> Leaf("just", x)
                          [] t.f = "pair" -> T("from_iter", 0, 0, "", 0, <<>>, <<x, x + 1>>, <<>>)
                          [] t.f = "err1" -> IF x = 1 THEN Leaf("error", 8) ELSE Leaf("just", x)
                          [] t.f = "probe2" -> Leaf("probe", 2)
                          [] t.f = "probe2map" -> U("map", 0, "inc", Leaf("probe", 2))
                          [] t.f = "unsub_probe2" -> Leaf("probe", 2)       \* the mapping function first unsubscribes sink 1
                          [] t.f = "obsmat" -> U("materialize", 0, "", Leaf("subject", x - ObsBase))
                          [] OTHER -> Leaf("empty", 0)
               h0 == IF t.f = "unsub_probe2" THEN UnsubFromInside(h, 1) ELSE h
               p == NewObserver(h0, c, 1)
           IN IF h0.stuck # "" THEN h0 ELSE Subscribe(p[1], inner, p[2])
         ELSE SinkNext(h, c, x)
    [] op = "map" -> SinkNext(h, c, ApplyF(t.f, t.a, x))
    [] op = "filter" -> IF ApplyP(t.f, t.a, x) THEN SinkNext(h, c, x) ELSE h
    [] op = "tap" ->
         LET h1 == IF st.tp.n THEN Emit(h, Ev("tap", t.id, "n", x)) ELSE h IN SinkNext(h1, c, x)
    [] op = "take" ->
         LET nn == st.n
             h1 == [h EXCEPT !.ctl[c].n = nn + 1]
             h2 == IF nn < t.a THEN SinkNext(h1, c, x) ELSE h1
         IN IF nn + 1 >= t.a THEN Finalize(SinkComplete(UpAbort(h2, c, hd.s), c, hd.s), c) ELSE h2
    [] op = "skip" ->
         LET h1 == [h EXCEPT !.ctl[c].n = st.n + 1] IN IF st.n >= t.a THEN SinkNext(h1, c, x) ELSE h1
    [] op = "take_while" -> IF ApplyP(t.f, t.a, x) THEN SinkNext(h, c, x) ELSE SinkComplete(h, c, hd.s)
    [] op = "skip_while" ->
         IF st.flag THEN SinkNext(h, c, x)
         ELSE IF ~ApplyP(t.f, t.a, x) THEN [SinkNext(h, c, x) EXCEPT !.ctl[c].flag = TRUE] ELSE h
    [] op = "take_last" -> [Touch(h, Lk("acc", c), "W") EXCEPT !.ctl[c].buf = PushCap(st.buf, x, t.a)]
    [] op = "skip_last" ->
         LET b == Append(st.buf, x)
             h1 == Touch(h, Lk("acc", c), "W")
         IN IF Len(b) > t.a THEN SinkNext([h1 EXCEPT !.ctl[c].buf = Tail(b)], c, Head(b)) ELSE [h1 EXCEPT !.ctl[c].buf = b]
    [] op = "distinct_until_changed" ->
         IF st.has /\ st.acc = x THEN Touch(h, Lk("acc", c), "R")
         ELSE SinkNext([Touch(h, Lk("acc", c), "W") EXCEPT !.ctl[c].has = TRUE, !.ctl[c].acc = x], c, x)
    [] op = "scan" ->
         LET v == IF st.has THEN st.acc + x ELSE x
             h1 == [Touch(h, Lk("acc", c), "W") EXCEPT !.ctl[c].has = TRUE, !.ctl[c].acc = v]
         IN SinkNext(Touch(h1, Lk("acc", c), "R"), c, v)          \* the value is copied out; downstream is called with no lock held
    [] op \in {"reduce", "sum"} ->
         [Touch(h, Lk("acc", c), "W") EXCEPT !.ctl[c].has = TRUE, !.ctl[c].acc = IF st.has THEN st.acc + x ELSE x]
    [] op = "sum_and_count" ->
         [Touch(h, Lk("acc", c), "W") EXCEPT !.ctl[c].has = TRUE, !.ctl[c].acc = IF st.has THEN st.acc + x ELSE x, !.ctl[c].n = st.n + 1]
    [] op = "min" -> [Touch(h, Lk("acc", c), "W") EXCEPT !.ctl[c].has = TRUE, !.ctl[c].acc = IF st.has /\ ~(x < st.acc) THEN st.acc ELSE x]
    [] op = "max" -> [Touch(h, Lk("acc", c), "W") EXCEPT !.ctl[c].has = TRUE, !.ctl[c].acc = IF st.has /\ ~(x > st.acc) THEN st.acc ELSE x]
    [] op = "count" -> [Touch(h, Lk("acc", c), "W") EXCEPT !.ctl[c].n = st.n + 1]
    [] op = "all_tail" -> SinkComplete(SinkNext(UpAbort(h, c, hd.s), c, 0), c, hd.s)
    [] op = "contains" -> IF x = t.a THEN SinkComplete(SinkNext(h, c, 1), c, hd.s) ELSE h
    [] op = "seq_eq_tail" -> IF ~AllEq(DecList(x)) THEN SinkComplete(SinkNext(UpAbort(h, c, hd.s), c, 0), c, hd.s) ELSE h
    [] op = "default_if_empty" -> SinkNext([Touch(h, Lk("die", c), "W") EXCEPT !.ctl[c].flag = TRUE], c, x)
    [] op = "ignore_elements" -> h
    [] op = "buffer_with_count" ->
         LET b == Append(st.buf, x)
             h1 == Touch(h, Lk("acc", c), "W")
         IN IF Len(b) = t.a THEN SinkNext([h1 EXCEPT !.ctl[c].buf = <<>>], c, EncList(b)) ELSE [h1 EXCEPT !.ctl[c].buf = b]
    [] op = "window_with_count" ->
         \* the counter's write lock is held across everything below
         LET h0 == Acquire(h, Lk("wn", c), "W")
             j == h0.ctl[c].win
             \* hand out the window with its first item; then the item; then close the window if it is full
             ha == IF h0.stuck # "" THEN h0 ELSE IF h0.ctl[c].n = 0 THEN SinkNext(h0, c, ObsBase + j) ELSE h0
             h2 == IF ha.stuck # "" THEN ha ELSE [SubjNext(ha, j, x) EXCEPT !.ctl[c].n = ha.ctl[c].n + 1]
             h1 == IF h2.stuck = "" /\ h2.ctl[c].n = t.a
                   THEN LET h3 == SubjComplete(h2, j)
                            p == NewSubject(h3, "plain", 0)
                        IN IF h3.stuck # "" THEN h3 ELSE [p[1] EXCEPT !.ctl[c].win = p[2], !.ctl[c].n = 0]
                   ELSE h2
         IN Release(h1)
    [] op = "group_by" ->
         LET key == x % 2
             h0 == Acquire(h, Lk("gb", c), "W")
             hit == SelectSeq(h0.ctl[c].groups, LAMBDA g : g.k = key)
         IN IF h0.stuck # "" THEN h0
            ELSE IF hit # <<>> THEN SubjNext(Release(h0), hit[1].j, x)
            ELSE LET p == NewSubject(h0, "plain", 0)
                     h1 == [p[1] EXCEPT !.ctl[c].groups = Append(@, [k |-> key, j |-> p[2]])]
                     h2 == Release(SinkNext(h1, c, ObsBase + p[2]))
                 IN SubjNext(h2, p[2], x)
    [] op = "materialize" -> SinkNext(h, c, EncMatN(x))
    [] op = "dematerialize" ->
         IF x = EncMatC THEN SinkComplete(h, c, hd.s) ELSE IF x >= 1000 THEN SinkError(h, c, x - 1000) ELSE SinkNext(h, c, x)
    [] op = "take_until" -> IF hd.b = 0 THEN SinkCompleteForce(h, c) ELSE SinkNext(h, c, x)
    [] op = "skip_until" ->
         IF hd.b = 0 THEN UpAbort([Touch(h, Lk("flag", c), "W") EXCEPT !.ctl[c].flag = TRUE], c, hd.s)
         ELSE IF st.flag THEN SinkNext(h, c, x) ELSE h
    [] op = "sample" ->
         IF hd.b = 0 THEN (IF st.has THEN SinkNext([Touch(h, Lk("acc", c), "W") EXCEPT !.ctl[c].has = FALSE], c, st.acc) ELSE Touch(h, Lk("acc", c), "W"))
         ELSE [Touch(h, Lk("acc", c), "W") EXCEPT !.ctl[c].has = TRUE, !.ctl[c].acc = x]
    [] op = "switch_on_next" ->
         IF hd.b = 1 THEN (IF st.flag THEN UpAbort(h, c, hd.s) ELSE SinkNext(h, c, x))
         ELSE SinkNext([Touch(h, Lk("flag", c), "W") EXCEPT !.ctl[c].flag = TRUE], c, x)
    [] op = "amb" ->
         LET won == IF st.has THEN st.acc = hd.s ELSE TRUE
             h1 == IF st.has THEN Touch(h, Lk("acc", c), "W") ELSE [Touch(h, Lk("acc", c), "W") EXCEPT !.ctl[c].has = TRUE, !.ctl[c].acc = hd.s]
         IN IF won THEN SinkNext(h1, c, x) ELSE UpAbort(h1, c, hd.s)
    [] op = "zip" ->
         LET h1 == [Touch(h, Lk("zq", c), "W") EXCEPT !.ctl[c].qs[hd.b] = Append(@, x)] IN ZipDrain(h1, c)
    [] OTHER -> h

\* zip: while every queue has an item: pop a row (under a write lock), stop if unsubscribed, emit it
ZipDrain(h, c) ==
  IF h.stuck # "" THEN h ELSE
  LET qs == h.ctl[c].qs
      full == \A i \in 1..Len(qs) : qs[i] # <<>>
  IN IF ~full THEN Touch(h, Lk("zq", c), "W")
     ELSE LET row == [i \in 1..Len(qs) |-> Head(qs[i])]
              h1 == [Touch(h, Lk("zq", c), "W") EXCEPT !.ctl[c].qs = [i \in 1..Len(qs) |-> Tail(qs[i])]]
          IN IF h1.stuck # "" THEN h1 ELSE IF ~IsSub(h1, h1.ctl[c].sub) THEN h1 ELSE ZipDrain(SinkNext(h1, c, EncList(row)), c)

\* ---------------------------------------------------------------- operators: error
RetryPred(f, a, e, attempt) == CASE f = "always" -> TRUE [] f = "never" -> FALSE [] f = "payload" -> e = a [] OTHER -> FALSE
OnError(h, o, hd, e) ==
  LET c == hd.a
      t == h.ctl[c].term
      op == t.op IN
  CASE op = "retry" ->
         IF t.a = 0 \/ hd.b < t.a
         THEN LET p == NewObserver(UpAbort(h, c, hd.s), c, hd.b + 1) IN Subscribe(p[1], t.in[1], p[2])
         ELSE SinkError(h, c, e)
    [] op = "retry_when" ->
         IF RetryPred(t.f, t.a, e, hd.b)
         THEN LET p == NewObserver(UpAbort(h, c, hd.s), c, hd.b + 1) IN Subscribe(p[1], t.in[1], p[2])
         ELSE SinkError(h, c, e)
    [] op = "on_error_resume_next" /\ hd.b = 1 ->
         LET h1 == UpAbort(h, c, hd.s)
             p == NewObserver(h1, c, 2)
             nxt == CASE t.f = "just" -> Leaf("just", 9) [] t.f = "empty" -> Leaf("empty", 0)
                      [] t.f = "error" -> Leaf("error", e + 1) [] OTHER -> Leaf("probe", 2)
         IN Subscribe(p[1], nxt, p[2])
    [] op = "tap" -> LET hh == [h EXCEPT !.ctl[c].tp = [n |-> FALSE, e |-> FALSE, c |-> FALSE]]
                     IN SinkError(IF h.ctl[c].tp.e THEN Emit(hh, Ev("tap", t.id, "e", e)) ELSE hh, c, e)
    [] op = "contains" -> SinkComplete(SinkNext(h, c, 0), c, hd.s)
    [] op = "materialize" -> SinkComplete(SinkNext(h, c, EncMatE(e)), c, hd.s)
    [] op = "amb" ->
         LET st == h.ctl[c]
             won == IF st.has THEN st.acc = hd.s ELSE TRUE
             h1 == IF st.has THEN Touch(h, Lk("acc", c), "W") ELSE [Touch(h, Lk("acc", c), "W") EXCEPT !.ctl[c].has = TRUE, !.ctl[c].acc = hd.s]
         IN IF won THEN SinkError(h1, c, e) ELSE UpAbort(h1, c, hd.s)
    [] op = "window_with_count" -> SinkError(SubjError(h, h.ctl[c].win, e), c, e)
    [] op = "group_by" -> SinkError(Release(GroupTerminal(Acquire(h, Lk("gb", c), "R"), Order(h, h.ctl[c].groups), "e", e)), c, e)
    [] OTHER -> SinkError(h, c, e)

GroupTerminal(h, groups, kind, e) ==
  IF groups = <<>> \/ h.stuck # "" THEN h
  ELSE GroupTerminal(IF kind = "e" THEN SubjError(h, Head(groups).j, e) ELSE SubjComplete(h, Head(groups).j), Tail(groups), kind, e)

\* ---------------------------------------------------------------- operators: complete
EmitWhileSub(h, c, items) ==
  IF items = <<>> \/ h.stuck # "" \/ ~IsSub(h, h.ctl[c].sub) THEN h ELSE EmitWhileSub(SinkNext(h, c, Head(items)), c, Tail(items))
OnComplete(h, o, hd) ==
  LET c == hd.a
      t == h.ctl[c].term
      op == t.op
      st == h.ctl[c] IN
  CASE op = "default_if_empty" ->
         LET h0 == Touch(h, Lk("die", c), "R") IN SinkComplete(IF ~h0.ctl[c].flag THEN SinkNext(h0, c, t.a) ELSE h0, c, hd.s)
    [] op = "tap" -> LET hh == [h EXCEPT !.ctl[c].tp = [n |-> FALSE, e |-> FALSE, c |-> FALSE]]
                     IN SinkComplete(IF st.tp.c THEN Emit(hh, Ev("tap", t.id, "c", 0)) ELSE hh, c, hd.s)
    [] op = "take_last" -> SinkComplete(Release(EmitWhileSub(Acquire(h, Lk("acc", c), "R"), c, st.buf)), c, hd.s)
    [] op \in {"reduce", "sum", "min", "max"} ->
         SinkComplete(IF st.has THEN Release(SinkNext(Acquire(h, Lk("acc", c), "R"), c, st.acc)) ELSE Touch(h, Lk("acc", c), "R"), c, hd.s)
    [] op = "sum_and_count" ->
         SinkComplete(IF st.has THEN Release(SinkNext(Acquire(h, Lk("acc", c), "R"), c, st.acc * 100 + st.n)) ELSE Touch(h, Lk("acc", c), "R"), c, hd.s)
    [] op = "count" -> SinkComplete(SinkNext(Touch(h, Lk("acc", c), "R"), c, st.n), c, hd.s)
    [] op = "all_tail" -> SinkComplete(SinkNext(h, c, 1), c, hd.s)
    [] op = "seq_eq_tail" -> SinkComplete(SinkNext(h, c, 1), c, hd.s)
    [] op = "contains" -> SinkComplete(SinkNext(h, c, 0), c, hd.s)
    [] op = "buffer_with_count" ->
         \* the read guard on the buffer lives until the end of the closure
         LET h0 == Acquire(h, Lk("acc", c), "R")
             h1 == IF st.buf # <<>> THEN SinkNext(h0, c, EncList(st.buf)) ELSE h0
         IN Release(SinkComplete(h1, c, hd.s))
    [] op = "window_with_count" -> SinkComplete(SubjComplete(h, st.win), c, hd.s)
    [] op = "group_by" -> SinkComplete(Release(GroupTerminal(Acquire(h, Lk("gb", c), "R"), Order(h, st.groups), "c", 0)), c, hd.s)
    [] op = "materialize" -> SinkComplete(SinkNext(h, c, EncMatC), c, hd.s)
    [] op \in {"take_until", "skip_until", "sample"} -> IF hd.b = 0 THEN h ELSE SinkCompleteForce(h, c)
    [] op = "switch_on_next" -> IF hd.b = 1 THEN SinkComplete(h, c, hd.s) ELSE SinkCompleteForce(h, c)
    [] op = "amb" ->
         LET won == IF st.has THEN st.acc = hd.s ELSE TRUE
             h1 == IF st.has THEN Touch(h, Lk("acc", c), "W") ELSE [Touch(h, Lk("acc", c), "W") EXCEPT !.ctl[c].has = TRUE, !.ctl[c].acc = hd.s]
         IN IF won THEN SinkCompleteForce(h1, c) ELSE UpAbort(h1, c, hd.s)
    [] op = "concat" -> ConcatNext(h, c)
    [] OTHER -> SinkComplete(h, c, hd.s)

\* concat: the queue of pending sources is built per subscription; completion of one source pops and subscribes the next
ConcatNext(h, c) ==
  LET h0 == Touch(h, Lk("cq", c), "R") IN
  IF h0.stuck # "" THEN h0
  ELSE IF h0.ctl[c].pend = <<>> THEN SinkCompleteForce(h0, c)
  ELSE LET nxt == Head(h0.ctl[c].pend)
           h1 == [Touch(h0, Lk("cq", c), "W") EXCEPT !.ctl[c].pend = Tail(@)]
           p == NewObserver(h1, c, 1)
       IN Subscribe(p[1], nxt, p[2])

\* ---------------------------------------------------------------- sources
RunScript(h, p, o, script) ==      \* p = <<probe id, instance>>
  IF script = <<>> \/ h.stuck # "" THEN h
  ELSE LET ev == Head(script)
           h1 == Emit(h, Ev5("probe", p[1], "issub", IF IsSub(h, o) THEN 1 ELSE 0, p[2]))
           h2 == CASE ev.k = "n" -> CallNext(h1, o, ev.v) [] ev.k = "e" -> CallError(h1, o, ev.v) [] OTHER -> CallComplete(h1, o)
       IN RunScript(h2, p, o, Tail(script))
FromIter(h, o, items) ==
  IF h.stuck # "" THEN h
  ELSE IF items = <<>> THEN (IF IsSub(h, o) THEN CallComplete(h, o) ELSE h)
  ELSE IF IsSub(h, o) THEN FromIter(CallNext(h, o, Head(items)), o, Tail(items)) ELSE h
StartWith(h, o, items) == IF items = <<>> \/ h.stuck # "" \/ ~IsSub(h, o) THEN h ELSE StartWith(CallNext(h, o, Head(items)), o, Tail(items))
\* repeat(x): while is_subscribed { next(x) } ; bounded by fuel (exhaustion = the producer never stops: verdict `budget`)
RepeatLoop(h, o, x) ==
  IF h.stuck # "" \/ ~IsSub(h, o) THEN h
  ELSE IF h.fuel = 0 THEN [h EXCEPT !.stuck = "budget"]
  ELSE RepeatLoop(CallNext([h EXCEPT !.fuel = @ - 1], o, x), o, x)

SubscribeInputs(h, ins, os) == IF ins = <<>> \/ h.stuck # "" THEN h ELSE SubscribeInputs(Subscribe(h, Head(ins), Head(os)), Tail(ins), Tail(os))
\* Observable::inner_subscribe: an observer that has already ended does not start the source
Subscribe(h, t, o) == IF h.stuck # "" \/ ~IsSub(h, o) THEN h ELSE IF h.fuel = 0 THEN [h EXCEPT !.div = TRUE] ELSE Subscribe0([h EXCEPT !.fuel = @ - 1], t, o)

MkObservers(h, c, k) ==   \* k observers with ports 1..k, in creation order
  LET RECURSIVE Mk(_,_,_)
      Mk(hh, i, acc) == IF i > k THEN <<hh, acc>> ELSE LET p == NewObserver(hh, c, i) IN Mk(p[1], i + 1, Append(acc, p[2]))
  IN Mk(h, 1, <<>>)
Reverse(s) == [i \in 1..Len(s) |-> s[Len(s) + 1 - i]]

Subscribe0(h, t, o) ==
  CASE t.op = "probe" -> LET inst == Len(h.regs[t.a]) + 1 IN Emit([h EXCEPT !.regs[t.a] = Append(@, o)], Ev("probe", t.a, "subscribed", inst))
    [] t.op = "cold" ->
         LET inst == Len(h.regs[t.a]) + 1
             h1 == Emit([h EXCEPT !.regs[t.a] = Append(@, o)], Ev("probe", t.a, "subscribed", inst))
         IN RunScript(h1, <<t.a, inst>>, o, t.scripts[Min(inst, Len(t.scripts))])
    [] t.op = "from_iter" -> FromIter(h, o, t.items)
    [] t.op = "just" -> CallComplete(CallNext(h, o, t.a), o)
    [] t.op = "start" -> CallComplete(CallNext(h, o, t.a), o)
    [] t.op = "from_result" -> IF t.b = 0 THEN CallComplete(CallNext(h, o, t.a), o) ELSE CallError(h, o, t.a)   \* Ok(a) = just(a); Err(a) = error(a), payload unchanged
    [] t.op = "empty" -> CallComplete(h, o)
    [] t.op = "never" -> h
    [] t.op = "error" -> CallError(h, o, t.a)
    [] t.op = "range" ->      \* poll before each item, complete unconditionally
         LET RECURSIVE R(_,_)
             R(hh, n) == IF n >= t.a + t.b \/ hh.stuck # "" \/ ~IsSub(hh, o) THEN hh ELSE R(CallNext(hh, o, n), n + 1)
         IN CallComplete(R(h, t.a), o)
    [] t.op = "repeat" -> RepeatLoop(h, o, t.a)
    [] t.op = "from_iter_endless" -> RepeatLoop(h, o, t.a)      \* from_iter(iter::repeat(a)): poll, emit, poll, ... like repeat
    [] t.op = "defer" -> Subscribe(h, t.in[1], o)
    [] t.op = "subject" ->
         IF h.sbj[t.a].kind = "async" THEN PlainSubscribe(h, t.a, o)   \* AsyncSubject::observable = its inner Subject's (fix: the subject owns its last item)
         ELSE SubjSubscribe(h, t.a, o)
    [] t.op = "rawsubject" -> PlainSubscribe(h, t.a, o)
    [] t.op = "conn" -> SubjSubscribe(h, h.conn[t.a].j, o)         \* Publish/RefCount/Replay::observable()
    [] t.op = "ready_set_go" ->      \* subscribe first, then run the action (here: emit t.a into subject t.b)
         LET h1 == Subscribe(h, t.in[1], o) IN IF h1.stuck # "" THEN h1 ELSE SubjNext(h1, t.b, t.a)
    [] t.op = "first" -> Subscribe(h, U("identity", 0, "", U("take", 1, "", t.in[1])), o)
    [] t.op = "last" -> Subscribe(h, U("identity", 0, "", U("take_last", 1, "", t.in[1])), o)
    [] t.op = "element_at" -> Subscribe(h, U("identity", 0, "", U("skip", IF t.a = 0 THEN 0 ELSE t.a - 1, "", U("take", t.a, "", t.in[1]))), o)
    [] t.op = "all" -> Subscribe(h, U("all_tail", 0, "", U("take", 1, "", U("filter", t.a, "n" \o t.f, t.in[1]))), o)
    [] t.op = "combine_latest" -> Subscribe(h, U("identity", 0, "", T("zip", 0, 0, "", 0, t.in, <<>>, <<>>)), o)
    [] t.op = "sequence_equal" -> Subscribe(h, U("seq_eq_tail", 0, "", T("zip", 0, 0, "", 0, t.in, <<>>, <<>>)), o)
    [] t.op = "start_with" ->
         LET h1 == StartWith(h, o, t.items)
         IN IF h1.stuck # "" \/ ~IsSub(h1, o) THEN h1
            ELSE LET p0 == NewCtl(h1, [t EXCEPT !.op = "identity"], o)
                     p1 == NewObserver(p0[1], p0[2], 1)
                 IN Subscribe(p1[1], t.in[1], p1[2])
    [] t.op \in {"merge", "zip", "amb"} ->
         \* "prepare subscribers": one observer per input first; merge/amb hand them out in reverse (pop from the back),
         \* zip in creation order (pop_front)
         LET p0 == NewCtl(h, t, o)
             c == p0[2]
             k == Len(t.in)
             h0 == IF t.op = "zip" THEN [p0[1] EXCEPT !.ctl[c].qs = [i \in 1..k |-> <<>>]] ELSE p0[1]
             made == MkObservers(h0, c, k)
             os == IF t.op = "zip" THEN made[2] ELSE Reverse(made[2])
         IN SubscribeInputs(made[1], t.in, os)
    [] t.op \in {"take_until", "skip_until", "sample"} ->
         \* in[1] = source, in[2] = trigger; the trigger observer (port 0) is created and subscribed first
         LET p0 == NewCtl(h, t, o)
             pt == NewObserver(p0[1], p0[2], 0)
             ps == NewObserver(pt[1], p0[2], 1)
         IN Subscribe(Subscribe(ps[1], t.in[2], pt[2]), t.in[1], ps[2])
    [] t.op = "switch_on_next" ->
         \* both observers first, then the source, then the target
         LET p0 == NewCtl(h, t, o)
             p1 == NewObserver(p0[1], p0[2], 1)
             p2 == NewObserver(p1[1], p0[2], 2)
         IN Subscribe(Subscribe(p2[1], t.in[1], p1[2]), t.in[2], p2[2])
    [] t.op = "window_with_count" ->
         LET ps == NewSubject(h, "plain", 0)
             p0 == NewCtl(ps[1], t, o)
             h1 == [p0[1] EXCEPT !.ctl[p0[2]].win = ps[2]]
             p1 == NewObserver(h1, p0[2], 1)
         IN Subscribe(p1[1], t.in[1], p1[2])
    [] t.op = "flat_map" ->
         LET p0 == NewCtl(h, t, o)
             p1 == NewObserver(p0[1], p0[2], 0)
         IN Subscribe(p1[1], t.in[1], p1[2])
    [] t.op = "retry" \/ t.op = "retry_when" \/ t.op = "on_error_resume_next" ->
         LET p0 == NewCtl(h, t, o)
             p1 == NewObserver(p0[1], p0[2], 1)
         IN Subscribe(p1[1], t.in[1], p1[2])
    [] t.op = "concat" ->
         LET p0 == NewCtl(h, t, o)
             h1 == [p0[1] EXCEPT !.ctl[p0[2]].pend = Tail(t.in)]
             p1 == NewObserver(h1, p0[2], 1)
         IN Subscribe(p1[1], t.in[1], p1[2])
    [] OTHER ->
         LET p0 == NewCtl(h, t, o)
             p1 == NewObserver(p0[1], p0[2], 1)
         IN Subscribe(p1[1], t.in[1], p1[2])

\* ---------------------------------------------------------------- subjects and connectables
SbjRm(j, serial) == [k |-> "sbjrm", a |-> j, b |-> serial]
Broadcast(h, snap, kind, x) ==
  IF snap = <<>> \/ h.stuck # "" THEN h
  ELSE LET o == Head(snap).o
           h1 == CASE kind = "n" -> CallNext(h, o, x) [] kind = "e" -> CallError(h, o, x) [] OTHER -> CallComplete(h, o)
       IN Broadcast(h1, Tail(snap), kind, x)
PlainNext(h, j, x) == Broadcast(h, Order(h, h.sbj[j].map), "n", x)
PlainError(h, j, x) == LET snap == Order(h, h.sbj[j].map) IN Broadcast([h EXCEPT !.sbj[j].map = <<>>], snap, "e", x)
PlainComplete(h, j) == LET snap == Order(h, h.sbj[j].map) IN Broadcast([h EXCEPT !.sbj[j].map = <<>>], snap, "c", 0)
SubjNext(h, j, x) ==
  IF h.stuck # "" THEN h ELSE
  CASE h.sbj[j].kind = "behavior" -> PlainNext([Touch(h, Lk("last", j), "W") EXCEPT !.sbj[j].last = [has |-> TRUE, v |-> x]], j, x)
    [] h.sbj[j].kind = "replay" -> PlainNext([Touch(h, Lk("items", j), "W") EXCEPT !.sbj[j].items = Append(@, x)], j, x)
    [] h.sbj[j].kind = "async" -> [Touch(h, Lk("last", j), "W") EXCEPT !.sbj[j].last = [has |-> TRUE, v |-> x]]      \* remembered, not forwarded
    [] OTHER -> PlainNext(h, j, x)
SubjError(h, j, x) ==
  IF h.stuck # "" THEN h ELSE
  CASE h.sbj[j].kind = "behavior" -> PlainError([Touch(h, Lk("lasterr", j), "W") EXCEPT !.sbj[j].err = [has |-> TRUE, v |-> x]], j, x)
    [] h.sbj[j].kind = "replay" -> PlainError([Touch(h, Lk("waserr", j), "W") EXCEPT !.sbj[j].err = [has |-> TRUE, v |-> x]], j, x)
    [] OTHER -> PlainError(h, j, x)
SubjComplete(h, j) ==
  IF h.stuck # "" THEN h ELSE
  CASE h.sbj[j].kind = "behavior" -> PlainComplete([Touch(h, Lk("last", j), "W") EXCEPT !.sbj[j].last = [has |-> FALSE, v |-> 0]], j)
    [] h.sbj[j].kind = "replay" -> PlainComplete([Touch(h, Lk("wascompl", j), "W") EXCEPT !.sbj[j].completed = TRUE], j)
    [] h.sbj[j].kind = "async" ->      \* the remembered item is taken out (write lock), handed to the current observers, then the completion
         LET h1 == [Touch(h, Lk("last", j), "W") EXCEPT !.sbj[j].last = [has |-> FALSE, v |-> 0]]
             h2 == IF h.sbj[j].last.has THEN PlainNext(h1, j, h.sbj[j].last.v) ELSE h1
         IN IF h2.stuck # "" THEN h2 ELSE PlainComplete(h2, j)
    [] OTHER -> PlainComplete(h, j)
PlainSubscribe(h, j, o) ==
  LET serial == h.sbj[j].serial + 1
      h1 == [h EXCEPT !.sbj[j].serial = serial, !.obs[o].td = SbjRm(j, serial), !.sbj[j].map = Append(@, [s |-> serial, o |-> o])]
  IN HookSub(h1, j, Len(h1.sbj[j].map))
HookSub(h, j, len) ==
  LET c == h.sbj[j].hook IN
  IF c = 0 \/ len # 1 \/ h.stuck # "" THEN h
  ELSE LET h1 == Acquire(h, Lk("conn", c), "W")
       IN IF h1.stuck # "" THEN h1
          ELSE IF h1.conn[c].some THEN Release(h1)
          ELSE LET g == Len(h1.obs) + 1
                   h2 == [h1 EXCEPT !.obs = Append(@, NewObs(ToSbjHd(j)))]
                   h3 == Subscribe(h2, h2.conn[c].term, g)
               IN IF h3.stuck # "" THEN h3 ELSE Release([h3 EXCEPT !.conn[c].some = TRUE, !.conn[c].obs = g, !.conn[c].live = TRUE])
HookUnsub(h, j, len) ==
  LET c == h.sbj[j].hook IN
  IF c = 0 \/ len # 0 \/ h.stuck # "" THEN h
  ELSE IF h.conn[c].kind = "ref_count"
       \* (fix: ref_count takes the subscription out of its slot - write lock - and unsubscribes it with no lock held, so that
       \*  the next first subscriber connects again)
       \*  the next first subscriber connects again; connecting and releasing are serialized by the slot's lock, and the hook
       \*  re-reads the observer table under it: a subscriber that joined in the meantime keeps the source - RefCountConc)
       THEN LET h1 == Acquire(h, Lk("conn", c), "W")
            IN IF h1.stuck # "" THEN h1
               ELSE IF Len(h1.sbj[j].map) # 0 \/ ~h1.conn[c].some THEN Release(h1)
               ELSE IF ~h1.conn[c].live THEN Release([h1 EXCEPT !.conn[c].some = FALSE])
               ELSE LET h2 == Unsub([h1 EXCEPT !.conn[c].some = FALSE, !.conn[c].live = FALSE], h1.conn[c].obs)
                    IN IF h2.stuck # "" THEN h2 ELSE Release(h2)
       ELSE LET h1 == Touch(h, Lk("conn", c), "R")
            IN IF h1.stuck # "" \/ ~h1.conn[c].some \/ ~h1.conn[c].live THEN h1
               ELSE Unsub([h1 EXCEPT !.conn[c].live = FALSE], h1.conn[c].obs)
ReplayItems(h, o, items) == IF items = <<>> \/ h.stuck # "" THEN h ELSE ReplayItems(CallNext(h, o, Head(items)), o, Tail(items))
SubjSubscribe(h, j, o) ==
  IF h.stuck # "" THEN h ELSE
  CASE h.sbj[j].kind = "behavior" ->
         \* the stored item / error are copied out under short read locks; the observer is called with no lock held
         LET h1 == Touch(Touch(h, Lk("last", j), "R"), Lk("lasterr", j), "R")
         IN IF h1.stuck # "" THEN h1
            ELSE IF h1.sbj[j].err.has THEN CallError(h1, o, h1.sbj[j].err.v)
            ELSE IF ~h1.sbj[j].last.has THEN CallComplete(h1, o)
            ELSE LET h2 == CallNext(h1, o, h1.sbj[j].last.v)
                 IN IF h2.stuck # "" \/ ~IsSub(h2, o) THEN h2 ELSE          \* the subscriber may have finished on the value it was handed
                    LET slot == Len(h2.slots) + 1
                        f == Len(h2.obs) + 1
                        h3 == [h2 EXCEPT !.slots = Append(@, [some |-> FALSE, obs |-> 0, live |-> FALSE]),
                                         !.obs[o].td = [k |-> "slot", a |-> slot, b |-> 0],
                                         !.obs = Append(@, NewObs(FwdHd(o)))]
                        h4 == PlainSubscribe(h3, j, f)
                    IN IF h4.stuck # "" THEN h4 ELSE [h4 EXCEPT !.slots[slot] = [some |-> TRUE, obs |-> f, live |-> TRUE]]
    [] h.sbj[j].kind = "replay" ->
         LET slot == Len(h.slots) + 1
             f == Len(h.obs) + 1
             h1 == [h EXCEPT !.slots = Append(@, [some |-> FALSE, obs |-> 0, live |-> FALSE]),
                             !.obs[o].td = [k |-> "slot", a |-> slot, b |-> 0],
                             !.obs = Append(@, NewObs(FwdHd(o)))]
             h2 == PlainSubscribe(h1, j, f)
             h3 == Acquire(Acquire(Acquire(h2, Lk("items", j), "R"), Lk("waserr", j), "R"), Lk("wascompl", j), "R")
             h4 == ReplayItems(h3, o, h3.sbj[j].items)
             h5 == IF h4.stuck # "" THEN h4
                   ELSE IF h4.sbj[j].err.has THEN CallError(h4, o, h4.sbj[j].err.v)
                   ELSE IF h4.sbj[j].completed THEN CallComplete(h4, o) ELSE h4
             h6 == Release(Release(Release(h5)))
             h7 == IF h6.stuck # "" THEN h6 ELSE [h6 EXCEPT !.slots[slot] = [some |-> TRUE, obs |-> f, live |-> TRUE]]
         \* a subscriber that finished while it was being subscribed found the slot still empty: release the inner subscription now
         IN IF h7.stuck # "" \/ IsSub(h7, o) THEN h7 ELSE SlotUnsub(Touch(h7, "slot", "R"), slot)
    [] OTHER -> PlainSubscribe(h, j, o)

\* ---------------------------------------------------------------- ownership (C17): Arc graph derived from the heap
\* nodes are <<kind, index>>; an edge means "holds a strong reference to"
AnySlot(h, o) == h.obs[o].n \/ h.obs[o].e \/ h.obs[o].c
ObsEdges(h) ==
  UNION { (IF AnySlot(h, o) THEN
             LET hd == h.obs[o].hd IN
             CASE hd.k = "sink" -> {<< <<"O", o>>, <<"U", hd.a>> >>}
               [] hd.k = "in" -> {<< <<"O", o>>, <<"K", hd.a>> >>}
               [] hd.k = "fwd" -> {<< <<"O", o>>, <<"O", hd.a>> >>}
               [] OTHER -> {<< <<"O", o>>, <<"S", hd.a>> >>}
           ELSE {})
          \cup
          (LET td == h.obs[o].td IN
           CASE td.k = "fin" -> {<< <<"O", o>>, <<"K", td.a>> >>}
             [] td.k = "sbjrm" -> {<< <<"O", o>>, <<"S", td.a>> >>}
             [] td.k = "slot" -> {<< <<"O", o>>, <<"L", td.a>> >>}
             [] OTHER -> {}) : o \in 1..Len(h.obs) }
CtlEdges(h) == UNION { {<< <<"K", c>>, <<"O", h.ctl[c].sub>> >>} \cup { << <<"K", c>>, <<"O", h.ctl[c].ups[i].o>> >> : i \in 1..Len(h.ctl[c].ups) } : c \in 1..Len(h.ctl) }
SbjEdges(h) == UNION { { << <<"S", j>>, <<"O", h.sbj[j].map[i].o>> >> : i \in 1..Len(h.sbj[j].map) }
                       \cup (IF h.sbj[j].hook # 0 THEN {<< <<"S", j>>, <<"C", h.sbj[j].hook>> >>} ELSE {}) : j \in 1..Len(h.sbj) }
ConnEdges(h) == UNION { {<< <<"C", c>>, <<"S", h.conn[c].j>> >>} \cup (IF h.conn[c].some THEN {<< <<"C", c>>, <<"O", h.conn[c].obs>> >>} ELSE {}) : c \in 1..Len(h.conn) }
SlotEdges(h) == UNION { (IF h.slots[i].some THEN {<< <<"L", i>>, <<"O", h.slots[i].obs>> >>} ELSE {}) : i \in 1..Len(h.slots) }
Edges(h) == ObsEdges(h) \cup CtlEdges(h) \cup SbjEdges(h) \cup ConnEdges(h) \cup SlotEdges(h)
RECURSIVE ReachFrom(_,_)
ReachFrom(E, S) == LET nxt == S \cup { e[2] : e \in { e \in E : e[1] \in S } } IN IF nxt = S THEN S ELSE ReachFrom(E, nxt)
\* with every handle dropped there are no roots: the user's closures survive iff a reference cycle reaches them
Leak(h, u) == LET E == Edges(h)
                  nodes == { e[1] : e \in E }
                  onCycle == { x \in nodes : x \in ReachFrom(E, { e[2] : e \in { e \in E : e[1] = x } }) }
              IN <<"U", u>> \in ReachFrom(E, onCycle)
=============================================================================
