----------------------------- MODULE RxSeqTrace -----------------------------
(* Trace validation (impl -> spec) for sequential executions of the real crate.

   The harness writes, per execution: one `reset` line (pipeline term, configuration), one `stim` line per stimulus
   with everything that was observed while it ran, and one `end` line (token counts after all handles were dropped).
   This specification consumes one line per step and judges the execution twice:

     ALARM (L2)  the property-level monitors of RxProps / RxRef are evaluated on the history after every line; the
                 first line at which a monitor rejects is recorded per property (a rejected execution is a behaviour
                 the property does not allow: the only source of VIOLATION lines);
     DRIFT (L1)  the same stimulus is applied to the implementation-shaped model RxSeq (RxStim!Apply) and the
                 observed events / verdict / observer counts must be exactly what the model produces; the first
                 disagreement is recorded (the code left the model: MODEL-DRIFT, never an alarm by itself).

   Several executions are concatenated in one file; the verdict of each is printed as one JSON line at its `end`.
   Acceptance of the file as a whole: every line was consumed (POSTCONDITION Consumed). *)
EXTENDS RxStim, RxProps, Json, IOUtils
Rec == ndJsonDeserialize(IOEnv.TRACE)

VARIABLES l, h, root, cfg, hist, handles, drift, rej
tvars == <<l, h, root, cfg, hist, handles, drift, rej>>
Props == {"C01", "C05", "C06", "C07", "REF", "TAP", "C17", "C10", "C13"}
NoRej == [p \in Props |-> 0]
NoCfg == [react |-> [unsub_at |-> 0, emit_at |-> 0, sub_at |-> 0], sbj |-> <<>>, conn |-> <<>>]
R == Rec[l]
Is(e) == l <= Len(Rec) /\ R.ev = e /\ l' = l + 1

Init == /\ l = 1 /\ h = EmptyHeap /\ root = Leaf("none", 0) /\ cfg = NoCfg /\ hist = <<>> /\ handles = <<>> /\ drift = 0 /\ rej = NoRej

Bad(v) == v = "bad"
\* handles of inner observables (window_with_count / group_by) are numbered differently on the two sides: compare them as "an observable"
Norm(obs) == [i \in 1..Len(obs) |-> IF obs[i].v >= ObsBase THEN [obs[i] EXCEPT !.v = ObsBase] ELSE obs[i]]
Mark(r, j, line) == [p \in Props |-> IF r[p] = 0 /\ Bad(j[p]) THEN line ELSE r[p]]

TReset == /\ Is("reset")
          /\ root' = R.root /\ cfg' = R.cfg
          /\ h' = [InitHeap(R.cfg, R.root) EXCEPT !.rev = R.rev]
          /\ hist' = <<>> /\ handles' = <<>> /\ drift' = 0 /\ rej' = NoRej

TStim == /\ Is("stim")
         /\ LET line == [st |-> R.st, obs |-> R.obs, fin |-> R.fin, cnt |-> R.cnt]
                hist2 == Append(hist, line)
            IN /\ hist' = hist2
               \* L2: judge the history so far (token counts are judged at `end`)
               /\ rej' = Mark(rej, Judge(hist2, root, cfg, FALSE, FALSE), l)
               \* L1: the model must do exactly the same (observer counts -1 = accessor unavailable in this build)
               /\ IF drift # 0 THEN UNCHANGED <<h, handles, drift>>
                  ELSE IF ~CanApply(h, handles, cfg, R.st) \/ h.stuck # "" THEN drift' = l /\ UNCHANGED <<h, handles>>
                  ELSE LET r == Apply(h, handles, cfg, root, R.st)
                           same == /\ r.fin = R.fin
                                   /\ (r.fin = "ok" => Norm(r.obs) = Norm(R.obs) /\ (r.cnt = R.cnt \/ \E i \in 1..Len(R.cnt) : R.cnt[i] = -1))
                                   /\ ~r.div
                       IN /\ h' = r.h /\ handles' = r.handles
                          /\ drift' = IF same THEN 0 ELSE l
         /\ UNCHANGED <<root, cfg>>

TEnd == /\ Is("end")
        /\ LET j == Judge(hist, root, cfg, R.measured /\ R.leak_sink, R.measured /\ R.leak_ops)
               rej2 == Mark(rej, j, l)
               d2 == IF drift = 0 /\ R.truncated THEN l       \* a stimulus of the generated case was not applicable to the real objects
                     ELSE IF drift = 0 /\ R.measured /\ AllFinOk(hist) /\ Len(handles) >= 1 /\ Leak(h, 1) # R.leak_sink THEN l ELSE drift
           IN PrintT(ToJson([trace |-> R.id, rej |-> rej2, drift |-> d2, lines |-> Len(hist)]))
        /\ UNCHANGED <<h, root, cfg, hist, handles, drift, rej>>

Next == TReset \/ TStim \/ TEnd
Spec == Init /\ [][Next]_tvars
Consumed == IF TLCGet("stats").diameter = Len(Rec) + 1 THEN TRUE
            ELSE Print(<<"NOT-CONSUMED: validation stopped before line", TLCGet("stats").diameter, "of", Len(Rec)>>, FALSE)
=============================================================================
