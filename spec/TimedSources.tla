---------------------------- MODULE TimedSources ----------------------------
(* L1 model, in virtual time, of the three remaining time-driven constructs of C16 (timeout / debounce / sample have their own
   modules TimedOps, Debounce, SampleConc):

     interval(D)   worker: n = 0; loop { sleep D; if !is_subscribed() break; next(n); n += 1 }; abort() - then the thread exits
     timer(D)      worker: sleep D; next(v); complete(); abort()     (a subscriber that left meanwhile drops both)
     delay(D)      in the SOURCE's thread, per item: sleep D; sink_next(x) - the source is held up meanwhile, so the item is handed on
                   D after it was received and the order is the source's; error / complete pass at once

   Time is a global clock that advances to the earliest wake-up only when nobody can step at the current instant (the rule of
   the controlled runtime).  An unsubscribing thread acts at a time from the grid UGrid (or never), the source of delay follows a
   script of gaps and events from a grid.  The timed clauses of C16 and the lifecycle clause of C15 are invariants.

   Named mistakes (each makes TLC report a violation, ./check --selftest):
     EmitThenSleep = TRUE   interval / delay emit first and sleep afterwards: 0 arrives at time 0, an item arrives when it was received
     NoPoll = TRUE          interval's worker never polls is_subscribed(): it outlives the subscription (C15) *)
EXTENDS Integers, Sequences, FiniteSets, TLC
CONSTANTS Kind,            \* "interval" | "timer" | "delay"
          D, UGrid, Horizon,      \* period; times at which the subscriber may unsubscribe (never a multiple of D); interval is explored up to Horizon
          Gaps, MaxEvents,        \* delay: source scripts of 1..MaxEvents events, gaps from Gaps
          EmitThenSleep, NoPoll
Kinds == {"n", "e", "c"}
ScriptSpace == IF Kind = "delay" THEN UNION { [1..n -> Gaps \X Kinds] : n \in 1..MaxEvents } ELSE { <<>> }
VARIABLES now, uAt, subscribed,
          wWake, wState, n,            \* the worker of interval / timer: "sleeping" until wWake | "exited"; n = next value
          script, ip, srcWake, sState, pending, recv,   \* delay: the source thread ("idle" until srcWake | "delaying" until srcWake), item being delayed, receive times
          out, exitAt
vars == <<now, uAt, subscribed, wWake, wState, n, script, ip, srcWake, sState, pending, recv, out, exitAt>>

Init == /\ now = 0 /\ uAt \in UGrid \cup {-1} /\ subscribed = TRUE
        /\ wWake = (IF EmitThenSleep THEN 0 ELSE D) /\ wState = (IF Kind = "delay" THEN "exited" ELSE "sleeping") /\ n = 0
        /\ script \in ScriptSpace /\ ip = 1 /\ srcWake = (IF Kind = "delay" THEN script[1][1] ELSE 0) /\ sState = "idle" /\ pending = 0 /\ recv = <<>>
        /\ out = <<>> /\ exitAt = -1

\* ---- the unsubscribing thread
Unsub == /\ uAt = now /\ subscribed /\ subscribed' = FALSE
         /\ UNCHANGED <<now, uAt, wWake, wState, n, script, ip, srcWake, sState, pending, recv, out, exitAt>>
\* ---- interval's worker wakes
IntervalStep ==
  /\ Kind = "interval" /\ wState = "sleeping" /\ wWake = now
  /\ IF EmitThenSleep
     THEN \* (the mistake) next(n) first, then sleep, then poll
          /\ out' = IF subscribed THEN Append(out, <<now, "n", n>>) ELSE out
          /\ IF subscribed \/ NoPoll THEN /\ n' = n + 1 /\ wWake' = now + D /\ UNCHANGED <<wState, exitAt>>
             ELSE /\ wState' = "exited" /\ exitAt' = now /\ UNCHANGED <<n, wWake>>
     ELSE IF subscribed \/ NoPoll
          THEN /\ out' = IF subscribed THEN Append(out, <<now, "n", n>>) ELSE out         \* (an unsubscribed Observer drops the value itself)
               /\ n' = n + 1 /\ wWake' = now + D /\ UNCHANGED <<wState, exitAt>>
          ELSE /\ wState' = "exited" /\ exitAt' = now /\ UNCHANGED <<out, n, wWake>>
  /\ UNCHANGED <<now, uAt, subscribed, script, ip, srcWake, sState, pending, recv>>
\* ---- timer's worker wakes: next, complete (both dropped by an observer that was unsubscribed), abort, exit
TimerStep ==
  /\ Kind = "timer" /\ wState = "sleeping" /\ wWake = now
  /\ out' = IF subscribed THEN out \o << <<now, "n", 7>>, <<now, "c", 0>> >> ELSE out
  /\ subscribed' = FALSE
  /\ wState' = "exited" /\ exitAt' = now
  /\ UNCHANGED <<now, uAt, wWake, n, script, ip, srcWake, sState, pending, recv>>
\* ---- delay: the source thread performs its next event / finishes a delay
SrcDone == Kind # "delay" \/ (ip > Len(script) /\ sState = "idle")
Advance == /\ ip' = ip + 1 /\ srcWake' = IF ip + 1 <= Len(script) THEN now + script[ip + 1][1] ELSE now
DelayStep ==
  /\ Kind = "delay" /\ ~SrcDone /\ srcWake = now
  /\ IF sState = "delaying"
     THEN \* the sleep is over: hand the item on (if the subscription is still open), then the source goes on
          /\ out' = IF subscribed THEN Append(out, <<now, "n", pending>>) ELSE out
          /\ sState' = "idle" /\ pending' = 0 /\ Advance /\ UNCHANGED <<subscribed, recv>>
     ELSE LET k == script[ip][2] IN
          IF k = "n" /\ subscribed
          THEN /\ recv' = Append(recv, now)
               /\ IF EmitThenSleep
                  THEN /\ out' = Append(out, <<now, "n", Len(recv) + 1>>) /\ sState' = "delaying" /\ pending' = 0 /\ srcWake' = now + D
                       /\ UNCHANGED <<ip, subscribed>>
                  ELSE /\ sState' = "delaying" /\ pending' = Len(recv) + 1 /\ srcWake' = now + D /\ UNCHANGED <<out, ip, subscribed>>
          ELSE IF k \in {"e", "c"} /\ subscribed
          THEN /\ out' = Append(out, <<now, k, 0>>) /\ subscribed' = FALSE /\ Advance /\ UNCHANGED <<sState, pending, recv>>
          ELSE /\ Advance /\ UNCHANGED <<out, subscribed, sState, pending, recv>>
  /\ UNCHANGED <<now, uAt, wWake, wState, n, script, exitAt>>
\* (with EmitThenSleep the "delaying" branch above hands nothing on: pending = 0)
DelayWake == IF Kind = "delay" /\ ~SrcDone THEN {srcWake} ELSE {}

CanStepNow == (uAt = now /\ subscribed) \/ (wState = "sleeping" /\ wWake = now) \/ (Kind = "delay" /\ ~SrcDone /\ srcWake = now)
Wakes == (IF wState = "sleeping" THEN {wWake} ELSE {}) \cup DelayWake \cup (IF uAt > now /\ subscribed THEN {uAt} ELSE {})
Tick == /\ ~CanStepNow /\ Wakes # {} /\ now < Horizon
        /\ now' = CHOOSE w \in Wakes : \A x \in Wakes : w <= x
        /\ UNCHANGED <<uAt, subscribed, wWake, wState, n, script, ip, srcWake, sState, pending, recv, out, exitAt>>
Next == Unsub \/ IntervalStep \/ TimerStep \/ DelayStep \/ Tick \/ (~CanStepNow /\ (Wakes = {} \/ now >= Horizon) /\ UNCHANGED vars)
Spec == Init /\ [][Next]_vars /\ WF_vars(Unsub \/ IntervalStep \/ TimerStep \/ DelayStep \/ Tick)

Items == SelectSeq(out, LAMBDA e : e[2] = "n")
\* C16 interval: 0, 1, 2, ... at D, 2D, 3D, ... after subscription until unsubscribed
IntervalExact == Kind = "interval" => \A i \in 1..Len(out) : out[i] = <<i * D, "n", i - 1>>
IntervalKeepsGoing == Kind = "interval" => \A k \in 1..20 : (k * D <= now /\ (uAt = -1 \/ uAt > k * D) /\ ~(wState = "sleeping" /\ wWake = k * D)) => Len(out) >= k
NothingAfterUnsub == \A i \in 1..Len(out) : uAt # -1 => out[i][1] < uAt
\* C16 timer: once at D, then completes (unless the subscriber left before)
TimerExact == Kind = "timer" => (out = <<>> \/ out = << <<D, "n", 7>>, <<D, "c", 0>> >>)
TimerFires == (Kind = "timer" /\ now > D /\ (uAt = -1 \/ uAt > D)) => out # <<>>
\* C16 delay: each item D after it was received, in the source's order
DelayExact == Kind = "delay" => \A i \in 1..Len(Items) : Items[i] = <<recv[Items[i][3]] + D, "n", Items[i][3]>>
DelayOrder == Kind = "delay" => \A i, j \in 1..Len(Items) : i < j => Items[i][3] < Items[j][3]
DelayAll == (Kind = "delay" /\ uAt = -1 /\ SrcDone) => Len(Items) = Len(recv)
\* C15: the worker exits within one period of the end of the subscription (timer: at D)
ExitWithinOnePeriod == /\ (Kind = "interval" /\ exitAt # -1) => exitAt <= uAt + D
                       /\ (Kind = "interval" /\ uAt # -1 /\ now > uAt + D) => wState = "exited"
WorkerExits == (Kind = "interval" /\ uAt # -1) => <>(wState = "exited")
=============================================================================
