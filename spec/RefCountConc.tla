---------------------------- MODULE RefCountConc ----------------------------
(* L1 (lock-operation level) design model of operators/ref_count.rs over a hot source when subscribers come and go on
   different threads (C13: "subscribes the source when its first subscriber arrives and unsubscribes it when the last one leaves",
   "never more than one source subscription at a time"):

     subscribe      Subject::observable: insert into the observer table (write lock), len = its new size; released;
                    on_subscribe(len): if len = 1 { slot.write(); if slot is Some -> return; slot = Some(source.subscribe()) }
     unsubscribe    Subject's hook: remove from the table (write lock), len = its new size; released;
                    on_unsubscribe(len): if len = 0 { slot.write(); [Recheck: if the table is no longer empty -> return;]
                                                      take the subscription out of the slot and unsubscribe it }

   Each of the Clients subscribes and later unsubscribes (Leavers), or only subscribes (Stayers).  `live` counts source
   subscriptions.  Recheck = FALSE is the code after the first ref_count fix (1be2ce5): a leaver that saw the table empty and a
   joiner that saw its slot occupied can leave a present subscriber without a source (TLC shows it; the real crate reproduced
   it under the controlled scheduler).  Recheck = TRUE is the repaired design. *)
EXTENDS Integers, Sequences, FiniteSets, TLC
CONSTANTS Leavers, Stayers, Recheck
Clients == Leavers \cup Stayers
(* --algorithm RefCountConc {
variables
  table = {},             \* observers registered with the subject
  slot = FALSE,           \* the subscription slot holds a (live) source subscription
  slotLock = 0,           \* holder of the slot's write lock
  live = 0;               \* source subscriptions currently held
define {
  AtMostOneSource == live <= 1
  Done == \A c \in Clients : pc[c] = "Done"
  PresentMeansConnected == Done => ((table # {}) => live = 1)
  EmptyMeansReleased == Done => ((table = {}) => live = 0)
}
fair process (client \in Clients)
variables len = 0;
{
s_ins:   table := table \cup {self}; len := Cardinality(table);          \* observers.write(): insert
s_hook:  if (len = 1) {
s_lock:    await slotLock = 0; slotLock := self;                        \* subscription.write()
s_conn:    if (~slot) { slot := TRUE; live := live + 1 };               \* connect unless already connected
s_rel:     slotLock := 0;
         };
s_ret:   if (self \in Stayers) { goto fin };
u_rm:    table := table \ {self}; len := Cardinality(table);             \* the unsubscribe hook: observers.write(): remove
u_hook:  if (len = 0) {
u_lock:    await slotLock = 0; slotLock := self;
u_take:    if (slot /\ (~Recheck \/ table = {})) { slot := FALSE; live := live - 1 };
u_rel:     slotLock := 0;
         };
fin:     skip;
}
} *)
\* BEGIN TRANSLATION (chksum(pcal) = "ce87b78a" /\ chksum(tla) = "54f6dac9")
VARIABLES pc, table, slot, slotLock, live

(* define statement *)
AtMostOneSource == live <= 1
Done == \A c \in Clients : pc[c] = "Done"
PresentMeansConnected == Done => ((table # {}) => live = 1)
EmptyMeansReleased == Done => ((table = {}) => live = 0)

VARIABLE len

vars == << pc, table, slot, slotLock, live, len >>

ProcSet == (Clients)

Init == (* Global variables *)
        /\ table = {}
        /\ slot = FALSE
        /\ slotLock = 0
        /\ live = 0
        (* Process client *)
        /\ len = [self \in Clients |-> 0]
        /\ pc = [self \in ProcSet |-> "s_ins"]

s_ins(self) == /\ pc[self] = "s_ins"
               /\ table' = (table \cup {self})
               /\ len' = [len EXCEPT ![self] = Cardinality(table')]
               /\ pc' = [pc EXCEPT ![self] = "s_hook"]
               /\ UNCHANGED << slot, slotLock, live >>

s_hook(self) == /\ pc[self] = "s_hook"
                /\ IF len[self] = 1
                      THEN /\ pc' = [pc EXCEPT ![self] = "s_lock"]
                      ELSE /\ pc' = [pc EXCEPT ![self] = "s_ret"]
                /\ UNCHANGED << table, slot, slotLock, live, len >>

s_lock(self) == /\ pc[self] = "s_lock"
                /\ slotLock = 0
                /\ slotLock' = self
                /\ pc' = [pc EXCEPT ![self] = "s_conn"]
                /\ UNCHANGED << table, slot, live, len >>

s_conn(self) == /\ pc[self] = "s_conn"
                /\ IF ~slot
                      THEN /\ slot' = TRUE
                           /\ live' = live + 1
                      ELSE /\ TRUE
                           /\ UNCHANGED << slot, live >>
                /\ pc' = [pc EXCEPT ![self] = "s_rel"]
                /\ UNCHANGED << table, slotLock, len >>

s_rel(self) == /\ pc[self] = "s_rel"
               /\ slotLock' = 0
               /\ pc' = [pc EXCEPT ![self] = "s_ret"]
               /\ UNCHANGED << table, slot, live, len >>

s_ret(self) == /\ pc[self] = "s_ret"
               /\ IF self \in Stayers
                     THEN /\ pc' = [pc EXCEPT ![self] = "fin"]
                     ELSE /\ pc' = [pc EXCEPT ![self] = "u_rm"]
               /\ UNCHANGED << table, slot, slotLock, live, len >>

u_rm(self) == /\ pc[self] = "u_rm"
              /\ table' = table \ {self}
              /\ len' = [len EXCEPT ![self] = Cardinality(table')]
              /\ pc' = [pc EXCEPT ![self] = "u_hook"]
              /\ UNCHANGED << slot, slotLock, live >>

u_hook(self) == /\ pc[self] = "u_hook"
                /\ IF len[self] = 0
                      THEN /\ pc' = [pc EXCEPT ![self] = "u_lock"]
                      ELSE /\ pc' = [pc EXCEPT ![self] = "fin"]
                /\ UNCHANGED << table, slot, slotLock, live, len >>

u_lock(self) == /\ pc[self] = "u_lock"
                /\ slotLock = 0
                /\ slotLock' = self
                /\ pc' = [pc EXCEPT ![self] = "u_take"]
                /\ UNCHANGED << table, slot, live, len >>

u_take(self) == /\ pc[self] = "u_take"
                /\ IF slot /\ (~Recheck \/ table = {})
                      THEN /\ slot' = FALSE
                           /\ live' = live - 1
                      ELSE /\ TRUE
                           /\ UNCHANGED << slot, live >>
                /\ pc' = [pc EXCEPT ![self] = "u_rel"]
                /\ UNCHANGED << table, slotLock, len >>

u_rel(self) == /\ pc[self] = "u_rel"
               /\ slotLock' = 0
               /\ pc' = [pc EXCEPT ![self] = "fin"]
               /\ UNCHANGED << table, slot, live, len >>

fin(self) == /\ pc[self] = "fin"
             /\ TRUE
             /\ pc' = [pc EXCEPT ![self] = "Done"]
             /\ UNCHANGED << table, slot, slotLock, live, len >>

client(self) == s_ins(self) \/ s_hook(self) \/ s_lock(self) \/ s_conn(self)
                   \/ s_rel(self) \/ s_ret(self) \/ u_rm(self)
                   \/ u_hook(self) \/ u_lock(self) \/ u_take(self)
                   \/ u_rel(self) \/ fin(self)

(* Allow infinite stuttering to prevent deadlock on termination. *)
Terminating == /\ \A self \in ProcSet: pc[self] = "Done"
               /\ UNCHANGED vars

Next == (\E self \in Clients: client(self))
           \/ Terminating

Spec == /\ Init /\ [][Next]_vars
        /\ \A self \in Clients : WF_vars(client(self))

Termination == <>(\A self \in ProcSet: pc[self] = "Done")

\* END TRANSLATION 
=============================================================================
