------------------------------- MODULE ToVec -------------------------------
(* L1 (lock-operation level) model of operators/to_vec.rs: the future returned by to_vec(), a source emitting on another
   thread, and a minimal executor (poll; if Pending, sleep until woken; poll again).  One label per lock operation:

     poll:      waker.write() is taken FIRST and held to the end; done.read(); if done { err.read(); Ready } else { store waker; Pending }
     next:      buffer.write().push(x)
     complete:  done.write() = true;  waker.read().clone();  wake()           (error: err.write() = e first)

   C18: Ready never before the source's terminal, always eventually once it has happened (no lost wake-up), and the
   result is every item in order (or the error).  WakerFirst = TRUE models the mistake "read the waker before setting
   done" and shows the lost wake-up; FALSE is the code as it is. *)
EXTENDS Integers, Sequences, TLC
CONSTANTS NItems, Fails, WakerFirst
(* --algorithm ToVec {
variables
  buffer = <<>>, done = FALSE, err = 0,
  waker = FALSE,            \* Some(waker) stored by poll
  wakerW = FALSE,           \* waker's write lock is held by poll
  flag = FALSE,             \* the executor's wake flag (Waker::wake sets it)
  result = "none", resultItems = <<>>, polls = 0,
  terminalStarted = FALSE;
define {
  ReadyOnlyAfterTerminal == (result # "none") => terminalStarted
  ResultIsEverything == (result = "ok") => resultItems = [i \in 1..NItems |-> i]
  ResultIsTheError == (result # "none") => (result = "err") = Fails
  EventuallyReady == <>(result # "none")
}
fair process (src \in {"src"})
variables k = 1, w = FALSE;
{
s_loop: while (k <= NItems) { buffer := Append(buffer, k); k := k + 1 };
s_term: terminalStarted := TRUE;
        if (Fails) { err := 5 };
s_a:    if (WakerFirst) { await ~wakerW; w := waker } else { done := TRUE };
s_b:    if (WakerFirst) { done := TRUE } else { await ~wakerW; w := waker };      \* waker.read() waits for poll's write lock
s_wake: if (w) { flag := TRUE };
}
fair process (exec \in {"exec"})
variables isDone = FALSE;
{
p_lock: await TRUE; wakerW := TRUE; polls := polls + 1;      \* waker.write()
p_done: isDone := done;                                      \* done.read()
p_res:  if (isDone) {
          if (err # 0) { result := "err" } else { result := "ok"; resultItems := buffer };
          wakerW := FALSE;
        } else {
          waker := TRUE; wakerW := FALSE;                    \* store the waker, release, return Pending
p_wait:   await flag; flag := FALSE;                         \* executor sleeps until woken
          goto p_lock;
        }
}
} *)
\* BEGIN TRANSLATION (chksum(pcal) = "6820591f" /\ chksum(tla) = "43345941")
VARIABLES pc, buffer, done, err, waker, wakerW, flag, result, resultItems, 
          polls, terminalStarted

(* define statement *)
ReadyOnlyAfterTerminal == (result # "none") => terminalStarted
ResultIsEverything == (result = "ok") => resultItems = [i \in 1..NItems |-> i]
ResultIsTheError == (result # "none") => (result = "err") = Fails
EventuallyReady == <>(result # "none")

VARIABLES k, w, isDone

vars == << pc, buffer, done, err, waker, wakerW, flag, result, resultItems, 
           polls, terminalStarted, k, w, isDone >>

ProcSet == ({"src"}) \cup ({"exec"})

Init == (* Global variables *)
        /\ buffer = <<>>
        /\ done = FALSE
        /\ err = 0
        /\ waker = FALSE
        /\ wakerW = FALSE
        /\ flag = FALSE
        /\ result = "none"
        /\ resultItems = <<>>
        /\ polls = 0
        /\ terminalStarted = FALSE
        (* Process src *)
        /\ k = [self \in {"src"} |-> 1]
        /\ w = [self \in {"src"} |-> FALSE]
        (* Process exec *)
        /\ isDone = [self \in {"exec"} |-> FALSE]
        /\ pc = [self \in ProcSet |-> CASE self \in {"src"} -> "s_loop"
                                        [] self \in {"exec"} -> "p_lock"]

s_loop(self) == /\ pc[self] = "s_loop"
                /\ IF k[self] <= NItems
                      THEN /\ buffer' = Append(buffer, k[self])
                           /\ k' = [k EXCEPT ![self] = k[self] + 1]
                           /\ pc' = [pc EXCEPT ![self] = "s_loop"]
                      ELSE /\ pc' = [pc EXCEPT ![self] = "s_term"]
                           /\ UNCHANGED << buffer, k >>
                /\ UNCHANGED << done, err, waker, wakerW, flag, result, 
                                resultItems, polls, terminalStarted, w, isDone >>

s_term(self) == /\ pc[self] = "s_term"
                /\ terminalStarted' = TRUE
                /\ IF Fails
                      THEN /\ err' = 5
                      ELSE /\ TRUE
                           /\ err' = err
                /\ pc' = [pc EXCEPT ![self] = "s_a"]
                /\ UNCHANGED << buffer, done, waker, wakerW, flag, result, 
                                resultItems, polls, k, w, isDone >>

s_a(self) == /\ pc[self] = "s_a"
             /\ IF WakerFirst
                   THEN /\ ~wakerW
                        /\ w' = [w EXCEPT ![self] = waker]
                        /\ done' = done
                   ELSE /\ done' = TRUE
                        /\ w' = w
             /\ pc' = [pc EXCEPT ![self] = "s_b"]
             /\ UNCHANGED << buffer, err, waker, wakerW, flag, result, 
                             resultItems, polls, terminalStarted, k, isDone >>

s_b(self) == /\ pc[self] = "s_b"
             /\ IF WakerFirst
                   THEN /\ done' = TRUE
                        /\ w' = w
                   ELSE /\ ~wakerW
                        /\ w' = [w EXCEPT ![self] = waker]
                        /\ done' = done
             /\ pc' = [pc EXCEPT ![self] = "s_wake"]
             /\ UNCHANGED << buffer, err, waker, wakerW, flag, result, 
                             resultItems, polls, terminalStarted, k, isDone >>

s_wake(self) == /\ pc[self] = "s_wake"
                /\ IF w[self]
                      THEN /\ flag' = TRUE
                      ELSE /\ TRUE
                           /\ flag' = flag
                /\ pc' = [pc EXCEPT ![self] = "Done"]
                /\ UNCHANGED << buffer, done, err, waker, wakerW, result, 
                                resultItems, polls, terminalStarted, k, w, 
                                isDone >>

src(self) == s_loop(self) \/ s_term(self) \/ s_a(self) \/ s_b(self)
                \/ s_wake(self)

p_lock(self) == /\ pc[self] = "p_lock"
                /\ TRUE
                /\ wakerW' = TRUE
                /\ polls' = polls + 1
                /\ pc' = [pc EXCEPT ![self] = "p_done"]
                /\ UNCHANGED << buffer, done, err, waker, flag, result, 
                                resultItems, terminalStarted, k, w, isDone >>

p_done(self) == /\ pc[self] = "p_done"
                /\ isDone' = [isDone EXCEPT ![self] = done]
                /\ pc' = [pc EXCEPT ![self] = "p_res"]
                /\ UNCHANGED << buffer, done, err, waker, wakerW, flag, result, 
                                resultItems, polls, terminalStarted, k, w >>

p_res(self) == /\ pc[self] = "p_res"
               /\ IF isDone[self]
                     THEN /\ IF err # 0
                                THEN /\ result' = "err"
                                     /\ UNCHANGED resultItems
                                ELSE /\ result' = "ok"
                                     /\ resultItems' = buffer
                          /\ wakerW' = FALSE
                          /\ pc' = [pc EXCEPT ![self] = "Done"]
                          /\ waker' = waker
                     ELSE /\ waker' = TRUE
                          /\ wakerW' = FALSE
                          /\ pc' = [pc EXCEPT ![self] = "p_wait"]
                          /\ UNCHANGED << result, resultItems >>
               /\ UNCHANGED << buffer, done, err, flag, polls, terminalStarted, 
                               k, w, isDone >>

p_wait(self) == /\ pc[self] = "p_wait"
                /\ flag
                /\ flag' = FALSE
                /\ pc' = [pc EXCEPT ![self] = "p_lock"]
                /\ UNCHANGED << buffer, done, err, waker, wakerW, result, 
                                resultItems, polls, terminalStarted, k, w, 
                                isDone >>

exec(self) == p_lock(self) \/ p_done(self) \/ p_res(self) \/ p_wait(self)

(* Allow infinite stuttering to prevent deadlock on termination. *)
Terminating == /\ \A self \in ProcSet: pc[self] = "Done"
               /\ UNCHANGED vars

Next == (\E self \in {"src"}: src(self))
           \/ (\E self \in {"exec"}: exec(self))
           \/ Terminating

Spec == /\ Init /\ [][Next]_vars
        /\ \A self \in {"src"} : WF_vars(src(self))
        /\ \A self \in {"exec"} : WF_vars(exec(self))

Termination == <>(\A self \in ProcSet: pc[self] = "Done")

\* END TRANSLATION 
=============================================================================
