----------------------------- MODULE SchedQueue -----------------------------
(* L1: lock-operation-level model of the new-thread scheduler (schedulers/async_function_queue.rs,
   new_thread_scheduler.rs): one action per facade operation of scheduling() / post() / stop(), in program order.

     scheduling (worker):  lock queue; wait_while { read abort; park on the condvar if !abort && queue empty };
                           read abort; pop_front (or None if abort); unlock; run the task; loop -- exit on None
     post:                 lock queue; push_back; notify_one; unlock
     stop (= abort()):     lock queue; clear; write abort = true; notify_one; unlock

   Client threads run scripts of "post" / "abort" calls; a task whose id is in AbortingTasks calls stop() from inside
   (on the worker thread).  Spurious condvar wake-ups are allowed (SpuriousWake).
   The C08 clauses are stated on history variables (push order, start order, what happened after abort returned) and
   checked by TLC as invariants and, under weak fairness of every thread, as leads-to properties (no lost wake-up, the
   worker exits after abort).  The same actions validate the lock-level log of the real crate (SchedQueueTrace). *)
EXTENDS Integers, Sequences, FiniteSets, TLC
CONSTANTS NClients, MaxOps, AbortingTasks, SpuriousWake
Worker == 0
Clients == 1..NClients
Threads == {Worker} \cup Clients
Ops == {"post", "abort"}
ScriptSpace == UNION { [1..n -> Ops] : n \in 1..MaxOps }
TaskId(t, i) == 10 * t + i

VARIABLES scripts, ip,          \* client scripts and positions
          pc, qm, ab, queue, abort, parked, cur,
          pushed, started, finished, stopRet, takenAfterStop, running
vars == <<scripts, ip, pc, qm, ab, queue, abort, parked, cur, pushed, started, finished, stopRet, takenAfterStop, running>>
hvars == <<pushed, started, finished, stopRet, takenAfterStop, running>>

Init == /\ scripts \in [Clients -> ScriptSpace] /\ ip = [t \in Clients |-> 1]
        /\ pc = [t \in Threads |-> IF t = Worker THEN "w_lock" ELSE "idle"]
        /\ qm = -1 /\ ab = [w |-> -1, r |-> 0] /\ queue = <<>> /\ abort = FALSE /\ parked = {} /\ cur = 0
        /\ pushed = <<>> /\ started = <<>> /\ finished = {} /\ stopRet = FALSE /\ takenAfterStop = FALSE /\ running = 0

Goto(t, l) == pc' = [pc EXCEPT ![t] = l]
AcqQ(t, from, to) == pc[t] = from /\ qm = -1 /\ qm' = t /\ Goto(t, to) /\ UNCHANGED <<ab, queue, abort, parked, cur, hvars, ip>>
RelQ(t, from, to) == pc[t] = from /\ qm = t /\ qm' = -1 /\ Goto(t, to) /\ UNCHANGED <<ab, queue, abort, parked, cur, hvars, ip>>
AcqAbR(t, from, to) == pc[t] = from /\ ab.w = -1 /\ ab' = [ab EXCEPT !.r = @ + 1] /\ Goto(t, to) /\ UNCHANGED <<qm, queue, abort, parked, cur, hvars, ip>>

\* ---- worker
W_Lock == AcqQ(Worker, "w_lock", "w_chk_acq")
W_ChkAcq == AcqAbR(Worker, "w_chk_acq", "w_chk_rel")
W_ChkRel == /\ pc[Worker] = "w_chk_rel" /\ ab' = [ab EXCEPT !.r = @ - 1]
            /\ Goto(Worker, IF ~abort /\ queue = <<>> THEN "w_park" ELSE "w_dec_acq")
            /\ UNCHANGED <<qm, queue, abort, parked, cur, hvars, ip>>
W_Park == /\ pc[Worker] = "w_park" /\ qm = Worker /\ qm' = -1 /\ parked' = parked \cup {Worker} /\ Goto(Worker, "w_parked")
          /\ UNCHANGED <<ab, queue, abort, cur, hvars, ip>>
W_Wake == /\ pc[Worker] = "w_parked" /\ (Worker \notin parked \/ SpuriousWake) /\ qm = -1 /\ qm' = Worker
          /\ parked' = parked \ {Worker} /\ Goto(Worker, "w_chk_acq") /\ UNCHANGED <<ab, queue, abort, cur, hvars, ip>>
W_DecAcq == AcqAbR(Worker, "w_dec_acq", "w_dec_rel")
W_DecRel == /\ pc[Worker] = "w_dec_rel" /\ ab' = [ab EXCEPT !.r = @ - 1]
            /\ IF abort THEN cur' = 0 /\ UNCHANGED <<queue, takenAfterStop>>
               ELSE /\ cur' = Head(queue) /\ queue' = Tail(queue)
                    /\ takenAfterStop' = (takenAfterStop \/ stopRet)
            /\ Goto(Worker, "w_unlock") /\ UNCHANGED <<qm, abort, parked, pushed, started, finished, stopRet, running, ip>>
W_Unlock == /\ pc[Worker] = "w_unlock" /\ qm = Worker /\ qm' = -1 /\ Goto(Worker, IF cur = 0 THEN "w_exit" ELSE "w_run")
            /\ UNCHANGED <<ab, queue, abort, parked, cur, hvars, ip>>
W_Start == /\ pc[Worker] = "w_run" /\ started' = Append(started, cur) /\ running' = running + 1
           /\ Goto(Worker, IF cur \in AbortingTasks THEN "s_lock" ELSE "w_running")
           /\ UNCHANGED <<qm, ab, queue, abort, parked, cur, pushed, finished, stopRet, takenAfterStop, ip>>
W_End == /\ pc[Worker] = "w_running" /\ finished' = finished \cup {cur} /\ running' = running - 1 /\ cur' = 0 /\ Goto(Worker, "w_lock")
         /\ UNCHANGED <<qm, ab, queue, abort, parked, pushed, started, stopRet, takenAfterStop, ip>>
\* ---- post (client t)
P_Call(t) == /\ t \in Clients /\ pc[t] = "idle" /\ ip[t] <= Len(scripts[t]) /\ scripts[t][ip[t]] = "post" /\ Goto(t, "p_lock")
             /\ UNCHANGED <<qm, ab, queue, abort, parked, cur, hvars, ip>>
P_Lock(t) == AcqQ(t, "p_lock", "p_notify")
P_Notify(t) == /\ pc[t] = "p_notify" /\ qm = t
               /\ queue' = Append(queue, TaskId(t, ip[t])) /\ pushed' = Append(pushed, TaskId(t, ip[t]))
               /\ parked' = {}                              \* notify_one: the (only) waiter, if any, becomes runnable
               /\ Goto(t, "p_unlock") /\ UNCHANGED <<qm, ab, abort, cur, started, finished, stopRet, takenAfterStop, running, ip>>
P_Unlock(t) == RelQ(t, "p_unlock", "p_ret")
P_Ret(t) == /\ pc[t] = "p_ret" /\ Goto(t, "idle") /\ ip' = [ip EXCEPT ![t] = @ + 1]
            /\ UNCHANGED <<qm, ab, queue, abort, parked, cur, hvars>>
\* ---- stop (client t, or the worker from inside an aborting task)
S_Call(t) == /\ t \in Clients /\ pc[t] = "idle" /\ ip[t] <= Len(scripts[t]) /\ scripts[t][ip[t]] = "abort" /\ Goto(t, "s_lock")
             /\ UNCHANGED <<qm, ab, queue, abort, parked, cur, hvars, ip>>
S_Lock(t) == AcqQ(t, "s_lock", "s_abw")
S_AbW(t) == /\ pc[t] = "s_abw" /\ ab.w = -1 /\ ab.r = 0 /\ ab' = [ab EXCEPT !.w = t] /\ queue' = <<>> /\ Goto(t, "s_abrel")
            /\ UNCHANGED <<qm, abort, parked, cur, hvars, ip>>
S_AbRel(t) == /\ pc[t] = "s_abrel" /\ ab' = [ab EXCEPT !.w = -1] /\ abort' = TRUE /\ Goto(t, "s_notify")
              /\ UNCHANGED <<qm, queue, parked, cur, hvars, ip>>
S_Notify(t) == /\ pc[t] = "s_notify" /\ parked' = {} /\ Goto(t, "s_unlock") /\ UNCHANGED <<qm, ab, queue, abort, cur, hvars, ip>>
S_Unlock(t) == RelQ(t, "s_unlock", "s_ret")
S_Ret(t) == /\ pc[t] = "s_ret" /\ stopRet' = TRUE
            /\ IF t = Worker THEN Goto(t, "w_running") /\ UNCHANGED ip
               ELSE Goto(t, "idle") /\ ip' = [ip EXCEPT ![t] = @ + 1]
            /\ UNCHANGED <<qm, ab, queue, abort, parked, cur, pushed, started, finished, takenAfterStop, running>>

WorkerStep == W_Lock \/ W_ChkAcq \/ W_ChkRel \/ W_Park \/ W_Wake \/ W_DecAcq \/ W_DecRel \/ W_Unlock \/ W_Start \/ W_End
              \/ S_Lock(Worker) \/ S_AbW(Worker) \/ S_AbRel(Worker) \/ S_Notify(Worker) \/ S_Unlock(Worker) \/ S_Ret(Worker)
ClientStep(t) == P_Call(t) \/ P_Lock(t) \/ P_Notify(t) \/ P_Unlock(t) \/ P_Ret(t) \/ S_Call(t) \/ S_Lock(t) \/ S_AbW(t) \/ S_AbRel(t) \/ S_Notify(t) \/ S_Unlock(t) \/ S_Ret(t)
Quiet == (\A t \in Clients : pc[t] = "idle" /\ ip[t] > Len(scripts[t])) /\ pc[Worker] \in {"w_exit", "w_parked"}
Next == ((WorkerStep \/ \E t \in Clients : ClientStep(t)) /\ UNCHANGED scripts) \/ (Quiet /\ UNCHANGED vars)
Fairness == WF_vars(WorkerStep /\ UNCHANGED scripts) /\ \A t \in Clients : WF_vars(ClientStep(t) /\ UNCHANGED scripts)
Spec == Init /\ [][Next]_vars /\ Fairness

\* ---------------------------------------------------------------- C08 on the model
Idx(s, x) == CHOOSE i \in 1..Len(s) : s[i] = x
OneAtATime == running <= 1
AtMostOnce == \A i, j \in 1..Len(started) : i # j => started[i] # started[j]
OnlyPosted == \A i \in 1..Len(started) : \E j \in 1..Len(pushed) : pushed[j] = started[i]
Fifo == \A i, j \in 1..Len(started) : i < j => Idx(pushed, started[i]) < Idx(pushed, started[j])
NothingTakenAfterAbortReturned == ~takenAfterStop
WorkerNotClient == TRUE
\* liveness (checked without state constraint): a task posted with no abort pending is eventually run; after abort the worker exits
Tasks == { TaskId(t, i) : t \in Clients, i \in 1..MaxOps }
InPushed(k) == \E j \in 1..Len(pushed) : pushed[j] = k
InStarted(k) == \E j \in 1..Len(started) : started[j] = k
NoLostWakeup == \A k \in Tasks : InPushed(k) ~> (InStarted(k) \/ abort)
WorkerExitsAfterAbort == abort ~> (pc[Worker] = "w_exit")
=============================================================================
