------------------------------- MODULE ZipConc -------------------------------
(* L1 (lock-operation level) design model of operators/zip.rs with its inputs on different threads (C11, known finding
   KF-C11-zip-reorder):

     register(id, x)   results.write(): push x to the queue of input id; release
                       loop: get() = results.write(): if every queue is non-empty pop one item of each (a row), release;
                             is_subscribed(); sink_next(row)  -- the row is handed on with NO lock held
                       until get() finds some queue empty

   Each of the NInputs threads pushes the items 1..NItems of its input.  Rows are numbered in the order they are popped (= the
   pairing order: row r pairs the r-th items).  Invariants: every emitted row pairs equal positions (RowsPairPositions), no row twice
   (NoRowTwice) - both hold; the rows reach the subscriber in pairing order (RowsInOrder) - does NOT hold on this design: a
   thread that popped row r can be overtaken, between its pop and its sink_next, by the thread that popped row r+1.  TLC exhibits
   the interleaving; the thorough tier's random schedules reproduce it on the real crate (the known finding).
   EmitUnderLock = TRUE is the (rejected) alternative "hold the lock across the downstream call": order holds, at the price of the
   same-thread re-entrancy deadlocks removed elsewhere (C07). *)
EXTENDS Integers, Sequences, FiniteSets, TLC
CONSTANTS NInputs, NItems, EmitUnderLock
Inputs == 1..NInputs
(* --algorithm ZipConc {
variables
  queues = [i \in Inputs |-> <<>>],   \* results: one queue per input
  lock = 0,                           \* holder of results' write lock (0 = free)
  emitted = <<>>,                     \* rows in the order the subscriber received them: <<row number, the row>>
  popped = 0;                         \* rows popped so far
define {
  RowsPairPositions == \A k \in 1..Len(emitted) : \A i \in Inputs : emitted[k][2][i] = emitted[k][1]
  NoRowTwice == \A a, b \in 1..Len(emitted) : a # b => emitted[a][1] # emitted[b][1]
  RowsInOrder == \A k \in 1..Len(emitted) : emitted[k][1] = k
  Done == \A i \in Inputs : pc[i] = "Done"
  AllRowsEmitted == Done => Len(emitted) = NItems
}
fair process (input \in Inputs)
variables n = 1, row = <<>>, rowNo = 0;
{
z_loop:  while (n <= NItems) {
z_push:    await lock = 0; lock := self;                                   \* results.write()
           queues[self] := Append(queues[self], n);
z_rel:     lock := 0;
z_get:     await lock = 0; lock := self;                                   \* get(): results.write()
           if (\A i \in Inputs : queues[i] # <<>>) {
             row := [i \in Inputs |-> Head(queues[i])];
             queues := [i \in Inputs |-> Tail(queues[i])];
             popped := popped + 1; rowNo := popped;
             if (EmitUnderLock) { emitted := Append(emitted, <<rowNo, row>>) };
z_rel2:      lock := 0;
z_emit:      if (~EmitUnderLock) { emitted := Append(emitted, <<rowNo, row>>) };   \* sink_next(row), no lock held
             goto z_get;
           } else {
z_rel3:      lock := 0;
           };
z_next:    n := n + 1;
         }
}
} *)
\* BEGIN TRANSLATION (chksum(pcal) = "5e95981d" /\ chksum(tla) = "b3288fb6")
VARIABLES pc, queues, lock, emitted, popped

(* define statement *)
RowsPairPositions == \A k \in 1..Len(emitted) : \A i \in Inputs : emitted[k][2][i] = emitted[k][1]
NoRowTwice == \A a, b \in 1..Len(emitted) : a # b => emitted[a][1] # emitted[b][1]
RowsInOrder == \A k \in 1..Len(emitted) : emitted[k][1] = k
Done == \A i \in Inputs : pc[i] = "Done"
AllRowsEmitted == Done => Len(emitted) = NItems

VARIABLES n, row, rowNo

vars == << pc, queues, lock, emitted, popped, n, row, rowNo >>

ProcSet == (Inputs)

Init == (* Global variables *)
        /\ queues = [i \in Inputs |-> <<>>]
        /\ lock = 0
        /\ emitted = <<>>
        /\ popped = 0
        (* Process input *)
        /\ n = [self \in Inputs |-> 1]
        /\ row = [self \in Inputs |-> <<>>]
        /\ rowNo = [self \in Inputs |-> 0]
        /\ pc = [self \in ProcSet |-> "z_loop"]

z_loop(self) == /\ pc[self] = "z_loop"
                /\ IF n[self] <= NItems
                      THEN /\ pc' = [pc EXCEPT ![self] = "z_push"]
                      ELSE /\ pc' = [pc EXCEPT ![self] = "Done"]
                /\ UNCHANGED << queues, lock, emitted, popped, n, row, rowNo >>

z_push(self) == /\ pc[self] = "z_push"
                /\ lock = 0
                /\ lock' = self
                /\ queues' = [queues EXCEPT ![self] = Append(queues[self], n[self])]
                /\ pc' = [pc EXCEPT ![self] = "z_rel"]
                /\ UNCHANGED << emitted, popped, n, row, rowNo >>

z_rel(self) == /\ pc[self] = "z_rel"
               /\ lock' = 0
               /\ pc' = [pc EXCEPT ![self] = "z_get"]
               /\ UNCHANGED << queues, emitted, popped, n, row, rowNo >>

z_get(self) == /\ pc[self] = "z_get"
               /\ lock = 0
               /\ lock' = self
               /\ IF \A i \in Inputs : queues[i] # <<>>
                     THEN /\ row' = [row EXCEPT ![self] = [i \in Inputs |-> Head(queues[i])]]
                          /\ queues' = [i \in Inputs |-> Tail(queues[i])]
                          /\ popped' = popped + 1
                          /\ rowNo' = [rowNo EXCEPT ![self] = popped']
                          /\ IF EmitUnderLock
                                THEN /\ emitted' = Append(emitted, <<rowNo'[self], row'[self]>>)
                                ELSE /\ TRUE
                                     /\ UNCHANGED emitted
                          /\ pc' = [pc EXCEPT ![self] = "z_rel2"]
                     ELSE /\ pc' = [pc EXCEPT ![self] = "z_rel3"]
                          /\ UNCHANGED << queues, emitted, popped, row, rowNo >>
               /\ n' = n

z_rel2(self) == /\ pc[self] = "z_rel2"
                /\ lock' = 0
                /\ pc' = [pc EXCEPT ![self] = "z_emit"]
                /\ UNCHANGED << queues, emitted, popped, n, row, rowNo >>

z_emit(self) == /\ pc[self] = "z_emit"
                /\ IF ~EmitUnderLock
                      THEN /\ emitted' = Append(emitted, <<rowNo[self], row[self]>>)
                      ELSE /\ TRUE
                           /\ UNCHANGED emitted
                /\ pc' = [pc EXCEPT ![self] = "z_get"]
                /\ UNCHANGED << queues, lock, popped, n, row, rowNo >>

z_rel3(self) == /\ pc[self] = "z_rel3"
                /\ lock' = 0
                /\ pc' = [pc EXCEPT ![self] = "z_next"]
                /\ UNCHANGED << queues, emitted, popped, n, row, rowNo >>

z_next(self) == /\ pc[self] = "z_next"
                /\ n' = [n EXCEPT ![self] = n[self] + 1]
                /\ pc' = [pc EXCEPT ![self] = "z_loop"]
                /\ UNCHANGED << queues, lock, emitted, popped, row, rowNo >>

input(self) == z_loop(self) \/ z_push(self) \/ z_rel(self) \/ z_get(self)
                  \/ z_rel2(self) \/ z_emit(self) \/ z_rel3(self)
                  \/ z_next(self)

(* Allow infinite stuttering to prevent deadlock on termination. *)
Terminating == /\ \A self \in ProcSet: pc[self] = "Done"
               /\ UNCHANGED vars

Next == (\E self \in Inputs: input(self))
           \/ Terminating

Spec == /\ Init /\ [][Next]_vars
        /\ \A self \in Inputs : WF_vars(input(self))

Termination == <>(\A self \in ProcSet: pc[self] = "Done")

\* END TRANSLATION 
=============================================================================
