------------------------------ MODULE ConcProps ------------------------------
(* L2 for executions in which several threads drive one pipeline / one subject (C05 cross-thread part, C11, C12, C19).

   A recorded execution is the sequence E of visible events in the total order of the controlled runtime (exactly one
   logical thread runs between two lock operations, so the order is real, not a merge of clocks).  Event records:
       [ev, t (logical thread), u (subscriber), src (source / producer), k ("n"|"e"|"c"), v]
     emitcall / emitret(src, k, v)    a thread calls next/error/complete on source `src` (the call brackets the whole delivery)
     subcall / subret(u)              subscribe() of subscriber u
     unsubcall / unsubret(u)          Subscription::unsubscribe() of subscriber u
     cbstart / cbend(u, k, v)         a callback of subscriber u runs
   Items are unique per source: source s emits 10*s + 1, 10*s + 2, ... so every delivered item names its producer.
   `tags` (from the case catalogue) say which clauses apply to the case.  Nothing here mentions the crate's internals. *)
EXTENDS Integers, Sequences, FiniteSets, TLC

Pos(E) == 1..Len(E)
IsEv(e, name) == e.ev = name
\* the emission that carries the callback at position q: the latest emitcall of the same thread that has not returned yet (0: none)
EmitStart(E, q) ==
  LET cands == { p \in 1..(q - 1) : E[p].ev = "emitcall" /\ E[p].t = E[q].t /\ ~\E r \in (p + 1)..(q - 1) : E[r].ev = "emitret" /\ E[r].t = E[q].t /\ E[r].src = E[p].src }
  IN IF cands = {} THEN 0 ELSE CHOOSE p \in cands : \A r \in cands : r <= p
CbStarts(E, u) == { q \in Pos(E) : E[q].ev = "cbstart" /\ E[q].u = u }
TermStarts(E, u) == { q \in CbStarts(E, u) : E[q].k \in {"e", "c"} }
Delivered(E, u) == LET s == SelectSeq(E, LAMBDA e : e.ev = "cbstart" /\ e.u = u /\ e.k = "n") IN [i \in 1..Len(s) |-> s[i].v]
Emitted(E, s) == LET x == SelectSeq(E, LAMBDA e : e.ev = "emitcall" /\ e.src = s /\ e.k = "n") IN [i \in 1..Len(x) |-> x[i].v]
FromSrc(items, s) == SelectSeq(items, LAMBDA v : v \div 10 = s)
IsPrefixOf(a, b) == Len(a) <= Len(b) /\ \A i \in 1..Len(a) : a[i] = b[i]
IsSuffixOf(a, b) == Len(a) <= Len(b) /\ \A i \in 1..Len(a) : a[i] = b[Len(b) - Len(a) + i]
NoDup(s) == \A i, j \in 1..Len(s) : i # j => s[i] # s[j]
Subscribers(E) == { E[q].u : q \in { q \in Pos(E) : E[q].ev \in {"subcall", "cbstart"} } }

\* ---------------------------------------------------------------- C19: the observer contract under races
\* at most one terminal notification; no callback for an event that started to be delivered after the terminal callback returned
C19ok(E) ==
  \A u \in Subscribers(E) :
    /\ Cardinality(TermStarts(E, u)) <= 1
    /\ \A p \in Pos(E) : (E[p].ev = "cbend" /\ E[p].u = u /\ E[p].k \in {"e", "c"}) =>
         \A q \in CbStarts(E, u) : q > p => (EmitStart(E, q) # 0 /\ EmitStart(E, q) < p)
\* callbacks of one subscriber never interleave with its terminal callback: nothing starts between a terminal's start and end on another thread
\* (covered by the clause above for everything that starts after the terminal returned)

\* ---------------------------------------------------------------- C05 (cross-thread): unsubscribe stops delivery
\* once unsubscribe() has returned, no event that a source STARTS to emit afterwards reaches the subscriber
C05ok(E) ==
  \A u \in Subscribers(E) : \A p \in Pos(E) : (E[p].ev = "unsubret" /\ E[p].u = u) =>
     \A q \in CbStarts(E, u) : q > p => (EmitStart(E, q) # 0 /\ EmitStart(E, q) < p)

\* ---------------------------------------------------------------- C11: combinators fed from several threads
\* tags: "srcs:<n>"   number of inputs (sources 1..n), none fails, all complete, nobody unsubscribes
\*       "merge"      every item of every input, each input's items in that input's order, exactly one complete after the last item
\*       "zip"        exactly the tuples pairing the i-th items (coded 1ab)
\*       "amb"        exactly one input gets through (all its items, in order, then its completion)
\*       "take:<n>"   never more than n items
HasTag(tags, x) == \E i \in 1..Len(tags) : tags[i] = x
TagNum(tags, prefix, dflt) ==   \* "prefix<d>" with a single digit d
  IF \E i \in 1..Len(tags), d \in 0..9 : tags[i] = prefix \o ToString(d)
  THEN CHOOSE d \in 0..9 : \E i \in 1..Len(tags) : tags[i] = prefix \o ToString(d) ELSE dflt
RECURSIVE EncL(_)
EncL(xs) == IF xs = <<>> THEN 1 ELSE EncL(SubSeq(xs, 1, Len(xs) - 1)) * 10 + xs[Len(xs)]
MinLen(E, n) == CHOOSE m \in 0..20 : (\A s \in 1..n : Len(Emitted(E, s)) >= m) /\ (\E s \in 1..n : Len(Emitted(E, s)) = m)
C11ok(E, tags, fin) ==
  LET n == TagNum(tags, "srcs:", 0)
      d == Delivered(E, 1)
      completes == { q \in CbStarts(E, 1) : E[q].k = "c" }
      errors == { q \in CbStarts(E, 1) : E[q].k = "e" }
      lastItem == IF \E q \in CbStarts(E, 1) : E[q].k = "n" THEN CHOOSE q \in CbStarts(E, 1) : E[q].k = "n" /\ \A r \in CbStarts(E, 1) : E[r].k = "n" => r <= q ELSE 0
      take == TagNum(tags, "take:", 99)
  IN /\ Cardinality(completes) <= 1 /\ Cardinality(errors) <= 1                   \* never complete twice or error twice
     /\ Len(d) <= take
     /\ (fin = "ok" /\ n > 0) =>
          /\ (HasTag(tags, "merge") /\ take = 99) =>
               /\ \A s \in 1..n : FromSrc(d, s) = Emitted(E, s)                     \* every item, per-input order, nothing twice
               /\ Len(d) = Len(Emitted(E, 1)) + (IF n >= 2 THEN Len(Emitted(E, 2)) ELSE 0) + (IF n >= 3 THEN Len(Emitted(E, 3)) ELSE 0)
               /\ Cardinality(completes) = 1 /\ errors = {} /\ \A q \in completes : q > lastItem
          /\ (HasTag(tags, "zip") /\ take = 99) =>
               /\ d = [i \in 1..MinLen(E, n) |-> EncL([s \in 1..n |-> Emitted(E, s)[i] % 10])]
               /\ Cardinality(completes) = 1 /\ errors = {} /\ \A q \in completes : q > lastItem
          /\ HasTag(tags, "amb") =>
               /\ \E s \in 1..n : (take = 99 => d = Emitted(E, s)) /\ (take # 99 => IsPrefixOf(d, Emitted(E, s)))
               /\ Cardinality(completes) = 1 /\ errors = {} /\ \A q \in completes : q > lastItem
          /\ (take # 99 /\ (HasTag(tags, "merge") \/ HasTag(tags, "zip"))) =>
               /\ Cardinality(completes) = 1 /\ errors = {} /\ \A q \in completes : q > lastItem
               /\ NoDup(d)

\* tag "bag": the inputs are created while the stream runs (flat_map whose source is fed by several threads): subscriber 1 gets
\* exactly the items of q.expect, each once, in any order, and then exactly one complete
C11bag(E, tags, q) == HasTag(tags, "bag") =>
  LET d == Delivered(E, 1)
      completes == { p \in CbStarts(E, 1) : E[p].k = "c" }
      errors == { p \in CbStarts(E, 1) : E[p].k = "e" }
      items == { p \in CbStarts(E, 1) : E[p].k = "n" }
  IN /\ q.fin = "ok" /\ errors = {} /\ Cardinality(completes) = 1 /\ \A c \in completes : \A p \in items : p < c
     /\ NoDup(d) /\ Len(d) = Len(q.expect) /\ \A i \in 1..Len(q.expect) : \E j \in 1..Len(d) : d[j] = q.expect[i][2]

\* ---------------------------------------------------------------- C12: subjects used from several threads
\* tags: "subject:<kind>", "producers:<n>" (sources 1..n call next), subscriber 1 = present from the start (stable),
\*       "latesub:2" = subscriber 2 subscribes concurrently, "unsub:1" = subscriber 1 unsubscribes concurrently
SubRet(E, u) == IF \E p \in Pos(E) : E[p].ev = "subret" /\ E[p].u = u THEN CHOOSE p \in Pos(E) : E[p].ev = "subret" /\ E[p].u = u ELSE 0
SubCall(E, u) == IF \E p \in Pos(E) : E[p].ev = "subcall" /\ E[p].u = u THEN CHOOSE p \in Pos(E) : E[p].ev = "subcall" /\ E[p].u = u ELSE 0
UnsubCall(E, u) == IF \E p \in Pos(E) : E[p].ev = "unsubcall" /\ E[p].u = u THEN CHOOSE p \in Pos(E) : E[p].ev = "unsubcall" /\ E[p].u = u ELSE 0
UnsubRetP(E, u) == IF \E p \in Pos(E) : E[p].ev = "unsubret" /\ E[p].u = u THEN CHOOSE p \in Pos(E) : E[p].ev = "unsubret" /\ E[p].u = u ELSE 0
\* items of producer s whose next() call began after position p / returned before position p
CallsAfter(E, s, p) == LET x == SelectSeq([q \in Pos(E) |-> [e |-> E[q], q |-> q]], LAMBDA r : r.e.ev = "emitcall" /\ r.e.src = s /\ r.e.k = "n" /\ r.q > p) IN [i \in 1..Len(x) |-> x[i].e.v]
RetsBefore(E, s, p) == LET x == SelectSeq([q \in Pos(E) |-> [e |-> E[q], q |-> q]], LAMBDA r : r.e.ev = "emitret" /\ r.e.src = s /\ r.e.k = "n" /\ r.q < p) IN [i \in 1..Len(x) |-> x[i].e.v]
C12ok(E, tags, fin) ==
  LET n == TagNum(tags, "producers:", 0)
      kind == IF HasTag(tags, "subject:replay") THEN "replay" ELSE IF HasTag(tags, "subject:behavior") THEN "behavior" ELSE "plain"
  IN (fin = "ok" /\ n > 0) =>
     \A u \in Subscribers(E) :
       LET d == Delivered(E, u)
           late == HasTag(tags, "latesub:" \o ToString(u))
           leaves == HasTag(tags, "unsub:" \o ToString(u))
       IN /\ NoDup(d)                                                               \* nothing twice
          /\ \A s \in 1..n :
               LET ds == FromSrc(d, s)
                   all == Emitted(E, s)
               IN \* each producer's items in that producer's order, without gaps
                  /\ (~late /\ ~leaves) => ds = all                                   \* present throughout: every item exactly once
                  /\ (late /\ ~leaves /\ kind = "plain") => IsSuffixOf(ds, all) /\ IsSuffixOf(CallsAfter(E, s, SubRet(E, u)), ds)
                  /\ (leaves /\ ~late) => IsPrefixOf(ds, all) /\ IsPrefixOf(RetsBefore(E, s, UnsubCall(E, u)), ds)
                  /\ (late /\ ~leaves /\ kind = "replay") => ds = all                 \* late subscriber of a ReplaySubject: everything ever pushed, once
                  /\ (late /\ ~leaves /\ kind = "behavior" /\ n = 1) =>               \* a value, then every later value with no gap
                       /\ Len(d) >= 1
                       /\ IsSuffixOf(IF d[1] = 9 THEN Tail(d) ELSE d, all) /\ (d[1] = 9 => Tail(d) = all)
                       /\ IsSuffixOf(CallsAfter(E, s, SubRet(E, u)), ds)

\* ---------------------------------------------------------------- C08: scheduler queue
\* events: postcall / postret(task) on the posting thread, abortcall / abortret, start / end(task) on the thread that runs it.
\* q = [fin, nblocked, nparked]: the runtime's final verdict (every thread finished / which threads are blocked forever on what).
\* tags: "queue" (new-thread scheduler) or "default_queue"; "clients:<n>" = logical threads 1..n are the posting client threads.
PosOf(E, name, task) == IF \E p \in Pos(E) : E[p].ev = name /\ E[p].task = task THEN CHOOSE p \in Pos(E) : E[p].ev = name /\ E[p].task = task ELSE 0
TasksStarted(E) == { E[p].task : p \in { p \in Pos(E) : E[p].ev = "start" } }
TasksPosted(E) == { E[p].task : p \in { p \in Pos(E) : E[p].ev = "postret" } }
AbortRets(E) == { p \in Pos(E) : E[p].ev = "abortret" }
AbortCalls(E) == { p \in Pos(E) : E[p].ev = "abortcall" }
C08ok(E, tags, q) ==
  LET starts == { p \in Pos(E) : E[p].ev = "start" }
      nclients == TagNum(tags, "clients:", 0)
      firstAbortRet == IF AbortRets(E) = {} THEN 0 ELSE CHOOSE p \in AbortRets(E) : \A r \in AbortRets(E) : p <= r
      inProgressAt(p) == \E s \in starts : s < p /\ ~\E e \in (s + 1)..(p - 1) : E[e].ev = "end" /\ E[e].task = E[s].task
  IN IF HasTag(tags, "default_queue")
     THEN \* the default scheduler runs the task synchronously inside post(), on the caller's thread
          \A s \in starts : LET a == E[s].task IN
             /\ PosOf(E, "postcall", a) # 0 /\ PosOf(E, "postcall", a) < s /\ PosOf(E, "end", a) # 0 /\ PosOf(E, "end", a) < PosOf(E, "postret", a)
             /\ E[s].t = E[PosOf(E, "postcall", a)].t
     ELSE
     /\ \A s1, s2 \in starts : s1 # s2 => E[s1].task # E[s2].task                                   \* each at most once
     /\ \A s \in starts : PosOf(E, "postcall", E[s].task) # 0 /\ PosOf(E, "postcall", E[s].task) < s       \* only posted tasks
     /\ \A s1, s2 \in starts : s1 < s2 => \E e \in (s1 + 1)..(s2 - 1) : E[e].ev = "end" /\ E[e].task = E[s1].task   \* one at a time
     /\ \A s1, s2 \in starts : E[s1].t = E[s2].t                                                       \* all on one thread ...
     /\ \A s \in starts : \A p \in Pos(E) : (E[p].ev = "postcall" /\ E[p].task < 100) => E[s].t # E[p].t       \* ... that is not a posting client thread (tasks >= 100 are posted from inside a task)
     \* FIFO: if post(a) returned before post(b) was called, a does not start after b
     /\ \A s1, s2 \in starts : (PosOf(E, "postret", E[s1].task) # 0 /\ PosOf(E, "postret", E[s1].task) < PosOf(E, "postcall", E[s2].task)) => s1 < s2
     \* ... and b cannot be run at all while such an a is skipped, unless an abort may have discarded a
     /\ \A s2 \in starts : \A a \in TasksPosted(E) : (PosOf(E, "postret", a) < PosOf(E, "postcall", E[s2].task) /\ a \notin TasksStarted(E)) => AbortCalls(E) # {}
     \* after abort returned no further task is taken: nothing posted afterwards ever runs, and at most the task already in hand starts
     /\ firstAbortRet # 0 =>
          /\ \A s \in starts : PosOf(E, "postcall", E[s].task) > firstAbortRet => FALSE
          /\ Cardinality({ s \in starts : s > firstAbortRet }) <= (IF inProgressAt(firstAbortRet) THEN 0 ELSE 1)
     \* quiescence: with an abort the worker thread terminates (every thread finished); without one it is parked on the condition
     \* variable, every call returned and every posted task has run (no lost wake-up)
     /\ (AbortCalls(E) # {} => q.fin = "ok")
     /\ (AbortCalls(E) = {} => /\ q.fin = "stuck" /\ q.nblocked = 1 /\ q.nparked = 1
                               /\ \A a \in TasksPosted(E) : a \in TasksStarted(E) /\ PosOf(E, "end", a) # 0)
     /\ \A p \in Pos(E) : E[p].ev = "postcall" => PosOf(E, "postret", E[p].task) # 0                   \* every post() returned
     /\ Cardinality(AbortCalls(E)) = Cardinality(AbortRets(E))                                          \* every abort() returned

\* ---------------------------------------------------------------- C18: the to_vec future
\* events: poll(k = "pending" | "ready" | "err", v = items coded 1ab.. | error payload) of a minimal executor, emitcall of the source thread
Polls(E) == { p \in Pos(E) : E[p].ev = "poll" }
C18ok(E, q) ==
  LET done == { p \in Polls(E) : E[p].k \in {"ready", "err"} }
      term == { p \in Pos(E) : E[p].ev = "emitcall" /\ E[p].k \in {"e", "c"} }
      items == Emitted(E, 1)
  IN /\ \A p \in done : \E t \in term : t < p                                     \* never ready before the source terminates
     /\ (term # {} => /\ q.fin = "ok" /\ Cardinality(done) = 1)                     \* ... and always eventually once it has (the executor returned)
     /\ \A p \in done : \A r \in Polls(E) : r <= p                                 \* resolves once: nothing is polled after Ready
     /\ \A p \in done : LET t == CHOOSE t \in term : \A t2 \in term : t <= t2 IN
            IF E[t].k = "c" THEN E[p].k = "ready" /\ E[p].v = EncL(items)            \* all items in order
            ELSE E[p].k = "err" /\ E[p].v = E[t].v                                   \* or the source's error

\* ---------------------------------------------------------------- C09: observe_on / subscribe_on hand events to the scheduler
\* tags: "observe_on" | "subscribe_on".  Source 1 is emitted by one thread; subscriber 1 records (event, thread).
EmittedEvents(E, s) == LET x == SelectSeq(E, LAMBDA e : e.ev = "emitcall" /\ e.src = s) IN [i \in 1..Len(x) |-> <<x[i].k, x[i].v>>]
DeliveredEvents(E, u) == LET x == SelectSeq(E, LAMBDA e : e.ev = "cbstart" /\ e.u = u) IN [i \in 1..Len(x) |-> <<x[i].k, x[i].v>>]
RECURSIVE CutTerminal(_)
CutTerminal(s) == IF s = <<>> THEN <<>> ELSE IF Head(s)[1] \in {"e", "c"} THEN <<Head(s)>> ELSE <<Head(s)>> \o CutTerminal(Tail(s))
NthPos(E, name, u, n) == LET ps == { p \in Pos(E) : E[p].ev = name /\ (name = "emitcall" \/ E[p].u = u) } IN CHOOSE p \in ps : Cardinality({ r \in ps : r <= p }) = n
C09ok(E, tags, q) ==
  LET d == DeliveredEvents(E, 1)
      s == CutTerminal(EmittedEvents(E, 1))
      cbs == CbStarts(E, 1)
      unsub == UnsubRetP(E, 1)
      \* tag "feedback": subscriber 1's callback pushes one more item into the source from the worker (events with fb = 1); the order
      \* of that item relative to the emitter's own is then decided by the scheduler's queue, not by the call order
      fb == HasTag(tags, "feedback")
      emitThreads == { E[p].t : p \in { p \in Pos(E) : E[p].ev = "emitcall" /\ E[p].fb = 0 } }
      fbvals == { E[p].v : p \in { p \in Pos(E) : E[p].ev = "emitcall" /\ E[p].fb = 1 } }
  IN (HasTag(tags, "observe_on") \/ HasTag(tags, "subscribe_on")) =>
     /\ (~HasTag(tags, "cold3") => \A p1, p2 \in cbs : E[p1].t = E[p2].t)                 \* all on one thread ...
     /\ \A p \in cbs : E[p].t # 0 /\ (HasTag(tags, "observe_on") => E[p].t \notin emitThreads)     \* ... that is neither the subscribing nor the emitting thread
     /\ \A p1, p2 \in cbs : p1 < p2 => \E e \in (p1 + 1)..(p2 - 1) : E[e].ev = "cbend" /\ E[e].u = 1     \* never two callbacks at once
     /\ (HasTag(tags, "cold3") \/ fb \/ IsPrefixOf(d, s))                                \* source order, nothing invented, terminal last
     /\ (unsub = 0 /\ HasTag(tags, "observe_on") /\ ~HasTag(tags, "cold3") /\ ~fb => d = s)      \* nothing lost
     /\ (fb => LET dv == Delivered(E, 1)
                   own == SelectSeq(Emitted(E, 1), LAMBDA v : v \notin fbvals)
               IN /\ SelectSeq(dv, LAMBDA v : v \notin fbvals) = own        \* the emitter's items: all, in its order
                  /\ NoDup(dv) /\ \A v \in fbvals : \E i \in 1..Len(dv) : dv[i] = v)      \* the fed-back item: once
     /\ (HasTag(tags, "subscribe_on") /\ unsub = 0 => d = IF HasTag(tags, "cold3") THEN << <<"n", 1>>, <<"n", 2>>, <<"n", 3>>, <<"c", 0>> >> ELSE s)
     \* a cold source 1,2,3: every subscriber of the same observable gets all of it (each subscription has its own worker)
     /\ (HasTag(tags, "cold3") => \A u \in Subscribers(E) : DeliveredEvents(E, u) = << <<"n", 1>>, <<"n", 2>>, <<"n", 3>>, <<"c", 0>> >>)
     \* events the source starts to emit after unsubscribe returned are not delivered (the i-th delivery carries the i-th emission)
     /\ (unsub # 0 /\ HasTag(tags, "observe_on")) => \A i \in 1..Len(d) : NthPos(E, "cbstart", 1, i) > unsub => NthPos(E, "emitcall", 1, i) < unsub

\* ---------------------------------------------------------------- C04 across threads: an error is still the last event, once, unchanged, after
\* every item emitted before it, when it crosses a scheduler hand-over (observe_on / subscribe_on / delay), and retry /
\* on_error_resume_next resubscribe as specified when the failing attempt ran on another thread.  q.expect is what the
\* definition gives for the case's scripts: [[kind, value], ...] of subscriber 1.
C04ok(E, tags, q) == HasTag(tags, "errpass") =>
  /\ (q.fin = "ok" \/ (q.fin = "stuck" /\ q.nblocked = q.nparked))     \* (an idle parked worker is C15's question)
  /\ LET d == DeliveredEvents(E, 1) IN Len(d) = Len(q.expect) /\ \A i \in 1..Len(d) : d[i][1] = q.expect[i][1] /\ d[i][2] = q.expect[i][2]

\* ---------------------------------------------------------------- C06 across threads: the inputs of a failed attempt are released before the
\* replacement is subscribed.  Tag "released-before-resume": the case's first input fails, on_error_resume_next subscribes a
\* replacement whose subscribe() takes a long (virtual) time (its start is the `acsub` event), and meanwhile another thread
\* emits into the sibling input (subject 2; `emitcall` carries the number of observers the subject holds at that moment):
\* from the moment the replacement is being subscribed, the sibling must no longer hold the failed attempt's observer.
C06conc(E, tags) == HasTag(tags, "released-before-resume") =>
  LET acs == { p \in Pos(E) : E[p].ev = "acsub" } IN
  /\ acs # {}
  /\ \A p \in Pos(E) : (E[p].ev = "emitcall" /\ E[p].src = 2 /\ \E a \in acs : a < p) => E[p].cnt <= 0          \* (-1 = count not observable in this build)
\* tag "no-observer-left": every subscriber of the case ends by itself (take(1) / first on an item that another thread emits
\* while it is still subscribing); if it has ended by then, the probe item 99 sent at the very end finds the subject holding no observer
\* (in schedules in which the subscriber missed the racing items it is legitimately still subscribed when the probe item comes)
C06left(E, tags) == HasTag(tags, "no-observer-left") =>
  \A p \in Pos(E) : (E[p].ev = "emitcall" /\ E[p].v = 99 /\ \E q \in 1..(p - 1) : E[q].ev = "cbend" /\ E[q].u = 1 /\ E[q].k \in {"c", "e"}) => E[p].cnt <= 0

\* tag "ends-with": an error raised by one input of a multi-input operator while another thread is delivering items of another
\* input still reaches the subscriber - exactly once, as the last event, with its payload (q.expect = the terminal)
C04ends(E, tags, q) == HasTag(tags, "ends-with") =>
  LET d == DeliveredEvents(E, 1)
      terms == { i \in 1..Len(d) : d[i][1] \in {"e", "c"} }
  IN /\ (q.fin = "ok" \/ (q.fin = "stuck" /\ q.nblocked = q.nparked))
     /\ Len(d) >= 1 /\ Cardinality(terms) = 1 /\ d[Len(d)][1] = q.expect[1][1] /\ d[Len(d)][2] = q.expect[1][2]

\* ---------------------------------------------------------------- C15: worker threads exit when the subscription ends
\* runtime events: spawn(v = new thread) / exit (with the virtual time clk of every event).  period = the case's timer period (ms).
SubEnd(E, u) == LET ps == { p \in Pos(E) : (E[p].ev = "cbend" /\ E[p].u = u /\ E[p].k \in {"e", "c"}) \/ (E[p].ev = "unsubret" /\ E[p].u = u) }
                IN IF ps = {} THEN 0 ELSE CHOOSE p \in ps : \A r \in ps : p <= r
C15ok(E, tags, q, period) ==
  \* a program that creates and finishes subscriptions repeatedly does not accumulate threads: all of them are gone at the end
  /\ (HasTag(tags, "workers-repeat") => q.fin = "ok")
  /\ HasTag(tags, "workers") =>
    LET e == SubEnd(E, 1) IN
    e # 0 =>
      /\ q.fin = "ok"                                                                 \* every thread started for the subscription has exited
      \* ... within one timer period of its end (threads of the harness itself - main and those that announce `hthread` - do not count)
      /\ \A p \in Pos(E) : (E[p].ev = "exit" /\ p > e /\ E[p].t # 0 /\ ~\E h \in Pos(E) : E[h].ev = "hthread" /\ E[h].t = E[p].t) => E[p].clk <= E[e].clk + period

\* ---------------------------------------------------------------- C16: time-based sources and operators follow the (virtual) clock
\* tags: "interval" | "timer" | "delay" | "timeout" | "subset" (sample / debounce); period = d in ms; clk of every event in ms
C16for(E, tags, q, d, u) ==
  LET cbs == SelectSeq(E, LAMBDA e : e.ev = "cbstart" /\ e.u = u)
      t0 == IF SubRet(E, u) # 0 THEN E[SubRet(E, u)].clk ELSE 0
      unsubClk == IF UnsubRetP(E, u) # 0 THEN E[UnsubRetP(E, u)].clk ELSE 1000000
      emits == SelectSeq(E, LAMBDA e : e.ev = "emitcall" /\ e.src = 1)
  IN /\ HasTag(tags, "interval") =>      \* 0,1,2,... at d, 2d, 3d, ... after subscription until unsubscribed
          /\ \A i \in 1..Len(cbs) : cbs[i].k = "n" /\ cbs[i].v = i - 1 /\ cbs[i].clk = t0 + i * d
          /\ \A n \in 1..20 : (t0 + n * d < unsubClk /\ t0 + n * d <= q.clk - d) => Len(cbs) >= n
          /\ \A i \in 1..Len(cbs) : cbs[i].clk <= unsubClk
     /\ HasTag(tags, "timer") =>         \* once at d, then completes
          /\ (q.clk >= t0 + d /\ unsubClk > t0 + d) => (Len(cbs) = 2 /\ cbs[1].k = "n" /\ cbs[1].clk = t0 + d /\ cbs[2].k = "c" /\ cbs[2].clk = t0 + d)
     /\ HasTag(tags, "delay") =>         \* each item d after it was received, order preserved
          /\ Len(cbs) = Len(emits)
          /\ \A i \in 1..Len(cbs) : cbs[i].k = emits[i].k /\ cbs[i].v = emits[i].v /\ (cbs[i].k = "n" => cbs[i].clk = emits[i].clk + d)
     /\ HasTag(tags, "timeout") =>       \* items pass; TimedOut (-2) exactly when more than d elapses after an item with no successor and no completion
          LET items == SelectSeq(cbs, LAMBDA e : e.k = "n")
              term == SelectSeq(cbs, LAMBDA e : e.k # "n")
              RECURSIVE FirstGap(_)
              FirstGap(i) == IF i > Len(emits) THEN 0
                             ELSE IF emits[i].k = "n" /\ ((i = Len(emits) /\ q.clk > emits[i].clk + d) \/ (i < Len(emits) /\ emits[i + 1].clk > emits[i].clk + d)) THEN i
                             ELSE IF emits[i].k # "n" THEN 0 ELSE FirstGap(i + 1)
              g == FirstGap(1)
          IN IF g # 0
             THEN /\ [i \in 1..Len(items) |-> items[i].v] = [i \in 1..g |-> emits[i].v]
                  /\ Len(term) = 1 /\ term[1].k = "e" /\ term[1].v = -2 /\ term[1].clk = emits[g].clk + d
             ELSE /\ [i \in 1..Len(cbs) |-> <<cbs[i].k, cbs[i].v>>] = [i \in 1..Len(emits) |-> <<emits[i].k, emits[i].v>>]
     \* with a consumer that blocks in its callback only the necessary condition is judged: a TimedOut needs d without any item received
     /\ (HasTag(tags, "timeout") \/ HasTag(tags, "timeout-slow")) =>
          \A i \in 1..Len(cbs) : (cbs[i].k = "e" /\ cbs[i].v = -2) => \A j \in 1..Len(emits) : (emits[j].k = "n" /\ emits[j].clk <= cbs[i].clk) => emits[j].clk + d <= cbs[i].clk
     /\ HasTag(tags, "subset") =>        \* sample / debounce: only items the source emitted, in source order, none twice
          \* ("the source" of subscriber u is what the hot source was handed after u's subscribe call began: an item of an earlier
          \*  subscription of the same observable value is not an item its source emitted)
          LET dv == Delivered(E, u)
              sv == IF SubCall(E, u) # 0 THEN CallsAfter(E, 1, SubCall(E, u)) ELSE Emitted(E, 1)
              RECURSIVE IsSubseq(_,_)
              IsSubseq(a, b) == IF a = <<>> THEN TRUE ELSE IF b = <<>> THEN FALSE ELSE IF Head(a) = Head(b) THEN IsSubseq(Tail(a), Tail(b)) ELSE IsSubseq(a, Tail(b))
          IN IsSubseq(dv, sv) /\ NoDup(dv)
\* "resub": subscriber 1 leaves, then subscriber 2 subscribes the same observable value - judged for its own subscription
C16ok(E, tags, q, d) == C16for(E, tags, q, d, 1) /\ ((HasTag(tags, "resub") /\ SubRet(E, 2) # 0) => C16for(E, tags, q, d, 2))
\* C14 for the time-driven sources / operators: two subscribers of the SAME observable value each get what the timed definition
\* gives for their own subscription (own worker, own timer, own clock origin)
C14ok(E, tags, q, d) ==
  /\ HasTag(tags, "twice") => \A u \in {1, 2} : (SubRet(E, u) # 0 => C16for(E, tags, q, d, u))
  \* "twice-cold3": a cold source 1,2,3 behind observe_on / subscribe_on (values possibly mapped by +1 per map), subscribed twice:
  \* both subscribers get the same three items and the completion
  /\ HasTag(tags, "twice-cold3") =>
       /\ Subscribers(E) = {1, 2}
       /\ \A u \in {1, 2} : LET x == DeliveredEvents(E, u) IN Len(x) = 4 /\ x[4] = <<"c", 0>> /\ \A i \in 1..3 : x[i][1] = "n" /\ x[i][2] = x[1][2] + i - 1
       /\ DeliveredEvents(E, 1) = DeliveredEvents(E, 2)

\* ---------------------------------------------------------------- C13 with a source that runs on its own thread
\* tags: "conn-stop"    the last subscriber leaving stops the source: every emission attempt of the source thread later than
\*                      `period` after the subscription ended sees is_subscribed() = false (emitcall events carry that reading)
\*       "replay-once"  every subscriber of replay() gets each item once
C13ok(E, tags, q, period) ==
  /\ HasTag(tags, "conn-stop") =>
       LET e == SubEnd(E, 1) IN
       e # 0 => \A p \in Pos(E) : (E[p].ev = "emitcall" /\ p > e /\ E[p].clk >= E[e].clk + period) => E[p].issub = 0
  /\ HasTag(tags, "replay-once") => \A u \in Subscribers(E) : NoDup(Delivered(E, u))
  \* "joiner-gets-items": subscriber 1 leaves while subscriber 2 joins (two threads); whatever the order, subscriber 2 is present
  \* afterwards, so the item the (hot) source emits later reaches it: the source is (still or again) subscribed
  /\ HasTag(tags, "joiner-gets-items") => (q.fin = "ok" /\ Delivered(E, 2) = <<11>>)

Judge(E, tags, q) ==
  LET fin == q.fin IN
  [C04 |-> IF C04ok(E, tags, q) /\ C04ends(E, tags, q) THEN "ok" ELSE "bad", C06 |-> IF C06conc(E, tags) /\ C06left(E, tags) THEN "ok" ELSE "bad", C14 |-> IF C14ok(E, tags, q, q.period) THEN "ok" ELSE "bad", C09 |-> IF C09ok(E, tags, q) THEN "ok" ELSE "bad", C15 |-> IF C15ok(E, tags, q, q.period) THEN "ok" ELSE "bad",
   C16 |-> IF C16ok(E, tags, q, q.period) THEN "ok" ELSE "bad", C13 |-> IF C13ok(E, tags, q, q.period) THEN "ok" ELSE "bad", C18 |-> IF ~HasTag(tags, "tovec") \/ C18ok(E, q) THEN "ok" ELSE "bad",
   C08 |-> IF ~(HasTag(tags, "queue") \/ HasTag(tags, "default_queue")) \/ C08ok(E, tags, q) THEN "ok" ELSE "bad",
   C19 |-> IF C19ok(E) THEN "ok" ELSE "bad", C05 |-> IF C05ok(E) THEN "ok" ELSE "bad",
   C11 |-> IF C11ok(E, tags, fin) /\ C11bag(E, tags, q) THEN "ok" ELSE "bad", C12 |-> IF C12ok(E, tags, fin) THEN "ok" ELSE "bad",
   \* C07: every call returned and every thread finished, or the only threads left are parked on a condition variable (an idle
   \* scheduler worker waiting for work; whether it should have exited is C15's question, whether work was lost C08's / C18's)
   C07 |-> IF fin = "ok" \/ (fin = "stuck" /\ q.nblocked = q.nparked) THEN "ok" ELSE "bad"]
=============================================================================
