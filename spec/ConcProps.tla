------------------------------ MODULE ConcProps ------------------------------
(* L2 for executions in which several threads drive one pipeline / one subject (C05 cross-thread part, C11, C12, C19).

   A recorded execution is the sequence E of visible events in the total order of the controlled runtime (exactly one
   logical thread runs between two lock operations, so the order is real, not a merge of clocks).  Event records:
       [ev, t (logical thread), u (subscriber), src (source / producer), k ("n"|"e"|"c"), v]
     emitcall / emitret(src, k, v)    a thread calls next/error/complete on source `src` (the call brackets the whole delivery)
     subcall / subret(u)              subscribe() of subscriber u
     unsubcall / unsubret(u)          Subscription::unsubscribe() of subscriber u
     cbstart / cbend(u, k, v)         a callback of subscriber u runs
   Items are unique per source: source s emits 10*s + 1, 10*s + 2, ... so every delivered item names its producer.
   `tags` (from the case catalogue) say which clauses apply to the case.  Nothing here mentions the crate's internals. *)
EXTENDS Integers, Sequences, FiniteSets, TLC

Pos(E) == 1..Len(E)
IsEv(e, name) == e.ev = name
\* the emission that carries the callback at position q: the latest emitcall of the same thread that has not returned yet (0: none)
EmitStart(E, q) ==
  LET cands == { p \in 1..(q - 1) : E[p].ev = "emitcall" /\ E[p].t = E[q].t /\ ~\E r \in (p + 1)..(q - 1) : E[r].ev = "emitret" /\ E[r].t = E[q].t /\ E[r].src = E[p].src }
  IN IF cands = {} THEN 0 ELSE CHOOSE p \in cands : \A r \in cands : r <= p
CbStarts(E, u) == { q \in Pos(E) : E[q].ev = "cbstart" /\ E[q].u = u }
TermStarts(E, u) == { q \in CbStarts(E, u) : E[q].k \in {"e", "c"} }
Delivered(E, u) == LET s == SelectSeq(E, LAMBDA e : e.ev = "cbstart" /\ e.u = u /\ e.k = "n") IN [i \in 1..Len(s) |-> s[i].v]
Emitted(E, s) == LET x == SelectSeq(E, LAMBDA e : e.ev = "emitcall" /\ e.src = s /\ e.k = "n") IN [i \in 1..Len(x) |-> x[i].v]
FromSrc(items, s) == SelectSeq(items, LAMBDA v : v \div 10 = s)
IsPrefixOf(a, b) == Len(a) <= Len(b) /\ \A i \in 1..Len(a) : a[i] = b[i]
IsSuffixOf(a, b) == Len(a) <= Len(b) /\ \A i \in 1..Len(a) : a[i] = b[Len(b) - Len(a) + i]
NoDup(s) == \A i, j \in 1..Len(s) : i # j => s[i] # s[j]
Subscribers(E) == { E[q].u : q \in { q \in Pos(E) : E[q].ev \in {"subcall", "cbstart"} } }

\* ---------------------------------------------------------------- C19: the observer contract under races
\* at most one terminal notification; no callback for an event that started to be delivered after the terminal callback returned
C19ok(E) ==
  \A u \in Subscribers(E) :
    /\ Cardinality(TermStarts(E, u)) <= 1
    /\ \A p \in Pos(E) : (E[p].ev = "cbend" /\ E[p].u = u /\ E[p].k \in {"e", "c"}) =>
         \A q \in CbStarts(E, u) : q > p => (EmitStart(E, q) # 0 /\ EmitStart(E, q) < p)
\* callbacks of one subscriber never interleave with its terminal callback: nothing starts between a terminal's start and end on another thread
\* (covered by the clause above for everything that starts after the terminal returned)

\* ---------------------------------------------------------------- C05 (cross-thread): unsubscribe stops delivery
\* once unsubscribe() has returned, no event that a source STARTS to emit afterwards reaches the subscriber
C05ok(E) ==
  \A u \in Subscribers(E) : \A p \in Pos(E) : (E[p].ev = "unsubret" /\ E[p].u = u) =>
     \A q \in CbStarts(E, u) : q > p => (EmitStart(E, q) # 0 /\ EmitStart(E, q) < p)

\* ---------------------------------------------------------------- C11: combinators fed from several threads
\* tags: "srcs:<n>"   number of inputs (sources 1..n), none fails, all complete, nobody unsubscribes
\*       "merge"      every item of every input, each input's items in that input's order, exactly one complete after the last item
\*       "zip"        exactly the tuples pairing the i-th items (coded 1ab)
\*       "amb"        exactly one input gets through (all its items, in order, then its completion)
\*       "take:<n>"   never more than n items
HasTag(tags, x) == \E i \in 1..Len(tags) : tags[i] = x
TagNum(tags, prefix, dflt) ==   \* "prefix<d>" with a single digit d
  IF \E i \in 1..Len(tags), d \in 0..9 : tags[i] = prefix \o ToString(d)
  THEN CHOOSE d \in 0..9 : \E i \in 1..Len(tags) : tags[i] = prefix \o ToString(d) ELSE dflt
RECURSIVE EncL(_)
EncL(xs) == IF xs = <<>> THEN 1 ELSE EncL(SubSeq(xs, 1, Len(xs) - 1)) * 10 + xs[Len(xs)]
MinLen(E, n) == CHOOSE m \in 0..20 : (\A s \in 1..n : Len(Emitted(E, s)) >= m) /\ (\E s \in 1..n : Len(Emitted(E, s)) = m)
C11ok(E, tags, fin) ==
  LET n == TagNum(tags, "srcs:", 0)
      d == Delivered(E, 1)
      completes == { q \in CbStarts(E, 1) : E[q].k = "c" }
      errors == { q \in CbStarts(E, 1) : E[q].k = "e" }
      lastItem == IF \E q \in CbStarts(E, 1) : E[q].k = "n" THEN CHOOSE q \in CbStarts(E, 1) : E[q].k = "n" /\ \A r \in CbStarts(E, 1) : E[r].k = "n" => r <= q ELSE 0
      take == TagNum(tags, "take:", 99)
  IN /\ Cardinality(completes) <= 1 /\ Cardinality(errors) <= 1                   \* never complete twice or error twice
     /\ Len(d) <= take
     /\ (fin = "ok" /\ n > 0) =>
          /\ (HasTag(tags, "merge") /\ take = 99) =>
               /\ \A s \in 1..n : FromSrc(d, s) = Emitted(E, s)                     \* every item, per-input order, nothing twice
               /\ Len(d) = Len(Emitted(E, 1)) + (IF n >= 2 THEN Len(Emitted(E, 2)) ELSE 0) + (IF n >= 3 THEN Len(Emitted(E, 3)) ELSE 0)
               /\ Cardinality(completes) = 1 /\ errors = {} /\ \A q \in completes : q > lastItem
          /\ (HasTag(tags, "zip") /\ take = 99) =>
               /\ d = [i \in 1..MinLen(E, n) |-> EncL([s \in 1..n |-> Emitted(E, s)[i] % 10])]
               /\ Cardinality(completes) = 1 /\ errors = {} /\ \A q \in completes : q > lastItem
          /\ HasTag(tags, "amb") =>
               /\ \E s \in 1..n : (take = 99 => d = Emitted(E, s)) /\ (take # 99 => IsPrefixOf(d, Emitted(E, s)))
               /\ Cardinality(completes) = 1 /\ errors = {} /\ \A q \in completes : q > lastItem
          /\ (take # 99 /\ (HasTag(tags, "merge") \/ HasTag(tags, "zip"))) =>
               /\ Cardinality(completes) = 1 /\ errors = {} /\ \A q \in completes : q > lastItem
               /\ NoDup(d)

\* ---------------------------------------------------------------- C12: subjects used from several threads
\* tags: "subject:<kind>", "producers:<n>" (sources 1..n call next), subscriber 1 = present from the start (stable),
\*       "latesub:2" = subscriber 2 subscribes concurrently, "unsub:1" = subscriber 1 unsubscribes concurrently
SubRet(E, u) == IF \E p \in Pos(E) : E[p].ev = "subret" /\ E[p].u = u THEN CHOOSE p \in Pos(E) : E[p].ev = "subret" /\ E[p].u = u ELSE 0
SubCall(E, u) == IF \E p \in Pos(E) : E[p].ev = "subcall" /\ E[p].u = u THEN CHOOSE p \in Pos(E) : E[p].ev = "subcall" /\ E[p].u = u ELSE 0
UnsubCall(E, u) == IF \E p \in Pos(E) : E[p].ev = "unsubcall" /\ E[p].u = u THEN CHOOSE p \in Pos(E) : E[p].ev = "unsubcall" /\ E[p].u = u ELSE 0
UnsubRetP(E, u) == IF \E p \in Pos(E) : E[p].ev = "unsubret" /\ E[p].u = u THEN CHOOSE p \in Pos(E) : E[p].ev = "unsubret" /\ E[p].u = u ELSE 0
\* items of producer s whose next() call began after position p / returned before position p
CallsAfter(E, s, p) == LET x == SelectSeq([q \in Pos(E) |-> [e |-> E[q], q |-> q]], LAMBDA r : r.e.ev = "emitcall" /\ r.e.src = s /\ r.e.k = "n" /\ r.q > p) IN [i \in 1..Len(x) |-> x[i].e.v]
RetsBefore(E, s, p) == LET x == SelectSeq([q \in Pos(E) |-> [e |-> E[q], q |-> q]], LAMBDA r : r.e.ev = "emitret" /\ r.e.src = s /\ r.e.k = "n" /\ r.q < p) IN [i \in 1..Len(x) |-> x[i].e.v]
C12ok(E, tags, fin) ==
  LET n == TagNum(tags, "producers:", 0)
      kind == IF HasTag(tags, "subject:replay") THEN "replay" ELSE IF HasTag(tags, "subject:behavior") THEN "behavior" ELSE "plain"
  IN (fin = "ok" /\ n > 0) =>
     \A u \in Subscribers(E) :
       LET d == Delivered(E, u)
           late == HasTag(tags, "latesub:" \o ToString(u))
           leaves == HasTag(tags, "unsub:" \o ToString(u))
       IN /\ NoDup(d)                                                               \* nothing twice
          /\ \A s \in 1..n :
               LET ds == FromSrc(d, s)
                   all == Emitted(E, s)
               IN \* each producer's items in that producer's order, without gaps
                  /\ (~late /\ ~leaves) => ds = all                                   \* present throughout: every item exactly once
                  /\ (late /\ ~leaves /\ kind = "plain") => IsSuffixOf(ds, all) /\ IsSuffixOf(CallsAfter(E, s, SubRet(E, u)), ds)
                  /\ (leaves /\ ~late) => IsPrefixOf(ds, all) /\ IsPrefixOf(RetsBefore(E, s, UnsubCall(E, u)), ds)
                  /\ (late /\ ~leaves /\ kind = "replay") => ds = all                 \* late subscriber of a ReplaySubject: everything ever pushed, once
                  /\ (late /\ ~leaves /\ kind = "behavior" /\ n = 1) =>               \* a value, then every later value with no gap
                       /\ Len(d) >= 1
                       /\ IsSuffixOf(IF d[1] = 9 THEN Tail(d) ELSE d, all) /\ (d[1] = 9 => Tail(d) = all)
                       /\ IsSuffixOf(CallsAfter(E, s, SubRet(E, u)), ds)

\* ---------------------------------------------------------------- C08: scheduler queue
\* events: postcall / postret(task) on the posting thread, abortcall / abortret, start / end(task) on the thread that runs it.
\* q = [fin, nblocked, nparked]: the runtime's final verdict (every thread finished / which threads are blocked forever on what).
\* tags: "queue" (new-thread scheduler) or "default_queue"; "clients:<n>" = logical threads 1..n are the posting client threads.
PosOf(E, name, task) == IF \E p \in Pos(E) : E[p].ev = name /\ E[p].task = task THEN CHOOSE p \in Pos(E) : E[p].ev = name /\ E[p].task = task ELSE 0
TasksStarted(E) == { E[p].task : p \in { p \in Pos(E) : E[p].ev = "start" } }
TasksPosted(E) == { E[p].task : p \in { p \in Pos(E) : E[p].ev = "postret" } }
AbortRets(E) == { p \in Pos(E) : E[p].ev = "abortret" }
AbortCalls(E) == { p \in Pos(E) : E[p].ev = "abortcall" }
C08ok(E, tags, q) ==
  LET starts == { p \in Pos(E) : E[p].ev = "start" }
      nclients == TagNum(tags, "clients:", 0)
      firstAbortRet == IF AbortRets(E) = {} THEN 0 ELSE CHOOSE p \in AbortRets(E) : \A r \in AbortRets(E) : p <= r
      inProgressAt(p) == \E s \in starts : s < p /\ ~\E e \in (s + 1)..(p - 1) : E[e].ev = "end" /\ E[e].task = E[s].task
  IN IF HasTag(tags, "default_queue")
     THEN \* the default scheduler runs the task synchronously inside post(), on the caller's thread
          \A s \in starts : LET a == E[s].task IN
             /\ PosOf(E, "postcall", a) # 0 /\ PosOf(E, "postcall", a) < s /\ PosOf(E, "end", a) # 0 /\ PosOf(E, "end", a) < PosOf(E, "postret", a)
             /\ E[s].t = E[PosOf(E, "postcall", a)].t
     ELSE
     /\ \A s1, s2 \in starts : s1 # s2 => E[s1].task # E[s2].task                                   \* each at most once
     /\ \A s \in starts : PosOf(E, "postcall", E[s].task) # 0 /\ PosOf(E, "postcall", E[s].task) < s       \* only posted tasks
     /\ \A s1, s2 \in starts : s1 < s2 => \E e \in (s1 + 1)..(s2 - 1) : E[e].ev = "end" /\ E[e].task = E[s1].task   \* one at a time
     /\ \A s1, s2 \in starts : E[s1].t = E[s2].t                                                       \* all on one thread ...
     /\ \A s \in starts : \A p \in Pos(E) : (E[p].ev = "postcall" /\ E[p].task < 100) => E[s].t # E[p].t       \* ... that is not a posting client thread (tasks >= 100 are posted from inside a task)
     \* FIFO: if post(a) returned before post(b) was called, a does not start after b
     /\ \A s1, s2 \in starts : (PosOf(E, "postret", E[s1].task) # 0 /\ PosOf(E, "postret", E[s1].task) < PosOf(E, "postcall", E[s2].task)) => s1 < s2
     \* ... and b cannot be run at all while such an a is skipped, unless an abort may have discarded a
     /\ \A s2 \in starts : \A a \in TasksPosted(E) : (PosOf(E, "postret", a) < PosOf(E, "postcall", E[s2].task) /\ a \notin TasksStarted(E)) => AbortCalls(E) # {}
     \* after abort returned no further task is taken: nothing posted afterwards ever runs, and at most the task already in hand starts
     /\ firstAbortRet # 0 =>
          /\ \A s \in starts : PosOf(E, "postcall", E[s].task) > firstAbortRet => FALSE
          /\ Cardinality({ s \in starts : s > firstAbortRet }) <= (IF inProgressAt(firstAbortRet) THEN 0 ELSE 1)
     \* quiescence: with an abort the worker thread terminates (every thread finished); without one it is parked on the condition
     \* variable, every call returned and every posted task has run (no lost wake-up)
     /\ (AbortCalls(E) # {} => q.fin = "ok")
     /\ (AbortCalls(E) = {} => /\ q.fin = "stuck" /\ q.nblocked = 1 /\ q.nparked = 1
                               /\ \A a \in TasksPosted(E) : a \in TasksStarted(E) /\ PosOf(E, "end", a) # 0)
     /\ \A p \in Pos(E) : E[p].ev = "postcall" => PosOf(E, "postret", E[p].task) # 0                   \* every post() returned
     /\ Cardinality(AbortCalls(E)) = Cardinality(AbortRets(E))                                          \* every abort() returned

Judge(E, tags, q) ==
  LET fin == q.fin IN
  [C08 |-> IF ~(HasTag(tags, "queue") \/ HasTag(tags, "default_queue")) \/ C08ok(E, tags, q) THEN "ok" ELSE "bad",
   C19 |-> IF C19ok(E) THEN "ok" ELSE "bad", C05 |-> IF C05ok(E) THEN "ok" ELSE "bad",
   C11 |-> IF C11ok(E, tags, fin) THEN "ok" ELSE "bad", C12 |-> IF C12ok(E, tags, fin) THEN "ok" ELSE "bad",
   C07 |-> IF fin = "ok" \/ (HasTag(tags, "queue") /\ fin = "stuck" /\ q.nblocked = q.nparked) THEN "ok" ELSE "bad"]
=============================================================================
