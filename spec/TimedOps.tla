------------------------------ MODULE TimedOps ------------------------------
(* L1 model, in virtual time, of the two time-driven mechanisms behind C15 / C16:

   interval(d, new-thread scheduler)   one worker: loop { sleep d; if !subscribed break; next(n); n++ }; then it exits
   timeout(d)                          per item: cancel the previous timer; pass the item on; arm interval(d).take(1) whose
                                       single tick raises TimedOut; (fix 66f9ce9) the armed timer is cancelled when the
                                       subscription ends.  A cancelled timer thread still sleeps out its period, then exits.

   Time is a global clock that advances to the earliest wake-up time only when no thread can take a step at the current
   instant (exactly the rule of the controlled runtime).  The source is a script of gaps and events chosen from a grid.
   The timed clauses of C16 and the lifecycle clause of C15 are invariants of the model. *)
EXTENDS Integers, Sequences, FiniteSets, TLC
CONSTANTS D,              \* the period / timeout
          Gaps,           \* grid of gaps between source events (never equal to D: "no two events exactly simultaneous")
          MaxEvents,      \* source scripts have 1..MaxEvents events
          CancelOnEnd,    \* TRUE = the code after fix 66f9ce9 (the armed timer is cancelled when the subscription ends)
          ArmAfterEnd     \* FALSE = the code after the second timeout fix: no timer is armed for an item during whose delivery the
                          \* downstream ended the stream (take(n), first, an unsubscribe from the callback)
Kinds == {"n", "c", "u", "l"}  \* item, complete, unsubscribe (by the subscriber's thread), last item (the downstream completes while it is delivered)
ScriptSpace == UNION { [1..n -> Gaps \X Kinds] : n \in 1..MaxEvents }

VARIABLES script, ip, now, srcWake,     \* the driving thread: next event at srcWake
          subscribed, ended,            \* downstream subscription; ended = time it ended (or -1)
          timers,                       \* set of [id, wake, live]: armed interval(d).take(1) threads (live = not cancelled)
          nextId, out, exits            \* out: <<time, kind>> delivered; exits: <<time, thread id>> of finished timer threads
vars == <<script, ip, now, srcWake, subscribed, ended, timers, nextId, out, exits>>

Init == /\ script \in ScriptSpace /\ ip = 1 /\ now = 0 /\ srcWake = script[1][1]
        /\ subscribed = TRUE /\ ended = -1 /\ timers = {} /\ nextId = 1 /\ out = <<>> /\ exits = <<>>

SrcDone == ip > Len(script)
Cancel(ts) == { [t EXCEPT !.live = FALSE] : t \in ts }
End(t) == /\ subscribed' = FALSE /\ ended' = t
\* the driving thread performs its next event at its wake-up time
SrcStep ==
  /\ ~SrcDone /\ srcWake = now
  /\ LET k == script[ip][2] IN
     /\ IF k = "n" /\ subscribed
        THEN /\ out' = Append(out, <<now, "n">>)
             /\ timers' = Cancel(timers) \cup {[id |-> nextId, wake |-> now + D, live |-> TRUE]}      \* cancel the old timer, arm a new one
             /\ nextId' = nextId + 1 /\ UNCHANGED <<subscribed, ended>>
        ELSE IF k = "l" /\ subscribed          \* the previous timer is cancelled, the item is handed on, the downstream ends the stream
        THEN /\ out' = Append(Append(out, <<now, "n">>), <<now, "c">>)
             /\ End(now)
             /\ timers' = Cancel(timers) \cup (IF ArmAfterEnd THEN {[id |-> nextId, wake |-> now + D, live |-> TRUE]} ELSE {})
             /\ nextId' = nextId + 1
        ELSE IF k \in {"c", "u"} /\ subscribed
        THEN /\ out' = IF k = "c" THEN Append(out, <<now, "c">>) ELSE out
             /\ End(now)
             /\ timers' = IF CancelOnEnd THEN Cancel(timers) ELSE timers
             /\ UNCHANGED nextId
        ELSE UNCHANGED <<out, timers, nextId, subscribed, ended>>
  /\ ip' = ip + 1
  /\ srcWake' = IF ip + 1 <= Len(script) THEN now + script[ip + 1][1] ELSE now
  /\ UNCHANGED <<script, now, exits>>
\* a timer thread wakes up: a live one fires TimedOut (if the subscription is still open) and, being take(1), is then unsubscribed;
\* it sleeps one more period before it notices and exits.  A cancelled one exits at once.
TimerStep ==
  \E t \in timers :
    /\ t.wake = now
    /\ IF t.live
       THEN /\ IF subscribed THEN out' = Append(out, <<now, "e">>) /\ End(now) ELSE UNCHANGED <<out, subscribed, ended>>
            /\ timers' = (timers \ {t}) \cup {[t EXCEPT !.live = FALSE, !.wake = now + D]}
            /\ UNCHANGED exits
       ELSE /\ timers' = timers \ {t} /\ exits' = Append(exits, <<now, t.id>>) /\ UNCHANGED <<out, subscribed, ended>>
    /\ UNCHANGED <<script, ip, srcWake, nextId, now>>
CanStepNow == (~SrcDone /\ srcWake = now) \/ \E t \in timers : t.wake = now
Wakes == { t.wake : t \in timers } \cup (IF SrcDone THEN {} ELSE {srcWake})
Tick == /\ ~CanStepNow /\ Wakes # {}
        /\ now' = CHOOSE w \in Wakes : \A x \in Wakes : w <= x
        /\ UNCHANGED <<script, ip, srcWake, subscribed, ended, timers, nextId, out, exits>>
Quiet == ~CanStepNow /\ Wakes = {}
Next == SrcStep \/ TimerStep \/ Tick \/ (Quiet /\ UNCHANGED vars)
Spec == Init /\ [][Next]_vars /\ WF_vars(SrcStep \/ TimerStep \/ Tick)

\* ---------------------------------------------------------------- C16 (timeout) on the model
Items == SelectSeq(out, LAMBDA e : e[2] = "n")
TimedOuts == SelectSeq(out, LAMBDA e : e[2] = "e")
\* a TimedOut at time t: the last item before it was passed on at exactly t - D (so more than D never elapsed unnoticed, and never less)
TimeoutExact == \A i \in 1..Len(out) : out[i][2] = "e" =>
                  /\ i > 1 /\ out[i - 1][2] = "n" /\ out[i - 1][1] + D = out[i][1]
\* nothing before the first item; at most one terminal; nothing after it
NoTimeoutBeforeFirstItem == \A i \in 1..Len(out) : out[i][2] = "e" => \E j \in 1..(i - 1) : out[j][2] = "n"
OneTerminalLast == \A i \in 1..Len(out) : out[i][2] \in {"e", "c"} => i = Len(out)
\* if an item is followed by silence longer than D while the subscription is open, the TimedOut does arrive (checked at quiescence)
TimeoutHappens == Quiet => \A i \in 1..Len(out) : (out[i][2] = "n" /\ i = Len(out)) => (ended # -1 /\ ended <= out[i][1] + D)
\* ---------------------------------------------------------------- C15 on the model: timer threads exit within one period of the end
ExitWithinOnePeriod == \A i \in 1..Len(exits) : ended # -1 /\ exits[i][1] >= ended => exits[i][1] <= ended + D
AllExit == <>[](timers = {})
=============================================================================
