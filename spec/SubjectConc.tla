---------------------------- MODULE SubjectConc ----------------------------
(* L1 (lock-operation level) model of a subject used from several threads: one producer thread pushing Values, a stable
   observer (id 1, registered from the start), a subscriber thread registering observer 2, and optionally an
   unsubscriber thread removing observer 1.  One label per lock operation of subjects/{subject,behavior_subject,
   replay_subject}.rs, in program order:

     Subject::next            snapshot of the observer map under its read lock, then the calls with no lock held
     BehaviorSubject::next    store last_item (write lock), then Subject::next
     ReplaySubject::next      append to items (write lock), then Subject::next
     Subject::observable      insert into the map (write lock)
     BehaviorSubject::observable   copy last_item (read lock), call the new observer, THEN register with the inner subject
     ReplaySubject::observable     register with the inner subject FIRST, then replay items while holding their read lock
     unsubscribe              clear the observer's slot (its callbacks are no longer called), then remove it from the map

   The C12 clauses are invariants over what each observer received.  On this design NoDup / NoGap fail for the replay and
   behavior kinds (known findings KF-C12-replay and KF-C12-behavior): TLC exhibits the interleaving, and the runtime reproduces it on the code. *)
EXTENDS Integers, Sequences, FiniteSets, TLC
CONSTANTS Kind,          \* "plain" | "behavior" | "replay"
          NValues,       \* the producer pushes 1..NValues
          WithUnsub      \* an unsubscriber thread removes observer 1
Init0 == 0               \* BehaviorSubject's initial value
(* --algorithm SubjectConc {
variables
  map = {1},             \* registered observers of the inner Subject
  live = {1, 2},         \* observers whose callback slots are still present
  items = <<>>,          \* ReplaySubject.items
  itemsR = 0,            \* readers of the items lock (replay in progress); a writer needs 0
  last = Init0,          \* BehaviorSubject.last_item
  got = [o \in {1, 2} |-> <<>>],
  pushed = <<>>,         \* values whose next() call has started, in start order
  subDone = FALSE, subDoneAt = 0, unsubAt = 0;
define {
  Done == \A p \in {"prod", "sub", "unsub"} : pc[p] = "Done"
  NoDup == \A o \in {1, 2} : \A i, j \in 1..Len(got[o]) : i # j => got[o][i] # got[o][j]
  InOrder == \A o \in {1, 2} : \A i, j \in 1..Len(got[o]) : i < j => (got[o][i] < got[o][j] \/ got[o][i] = Init0)
  \* observer 1 stays throughout (no unsubscriber): every item exactly once
  StableGetsAll == (Done /\ ~WithUnsub) => SelectSeq(got[1], LAMBDA v : v # Init0) = pushed
  \* late subscriber: a gap-free suffix (plain), everything (replay), a value and then everything later (behavior)
  LateSuffix == Done => LET g == SelectSeq(got[2], LAMBDA v : v # Init0)
                        IN /\ \A i \in 1..Len(g) : g[i] = NValues - Len(g) + i             \* contiguous suffix of 1..NValues
                           /\ (Kind = "replay" => Len(g) = NValues)
                           /\ \A v \in 1..NValues : v > subDoneAt => \E i \in 1..Len(g) : g[i] = v   \* everything pushed after subscribe returned
  BehaviorFirst == (Done /\ Kind = "behavior") => Len(got[2]) >= 1
}
macro deliver(o, v) { if (o \in live) { got[o] := Append(got[o], v) } }
process (prod \in {"prod"})
variables k = 1, snap = {};
{
p_loop: while (k <= NValues) {
p_store:  pushed := Append(pushed, k);
          if (Kind = "replay") { await itemsR = 0; items := Append(items, k) }      \* items.write()
          else if (Kind = "behavior") { last := k };                                \* last_item.write()
p_snap:   snap := map;                                                              \* fetch_observers() under map.read()
p_c1:     if (1 \in snap) { deliver(1, k) };
p_c2:     if (2 \in snap) { deliver(2, k) };
          k := k + 1;
        }
}
process (sub \in {"sub"})
variables i = 1, h = <<>>, v0 = 0;
{
s_start: if (Kind = "behavior") {
s_copy:     v0 := last;                                   \* copy of last_item under its read lock
s_hand:     deliver(2, v0);                               \* hand-over with no lock held
s_reg:      map := map \cup {2};                          \* ... and only then the registration
         } else if (Kind = "replay") {
s_reg2:     map := map \cup {2};                          \* registration first
s_rd:       itemsR := itemsR + 1; h := items;             \* items.read() held during the whole replay
s_rep:      while (i <= Len(h)) { deliver(2, h[i]); i := i + 1 };
s_rel:      itemsR := itemsR - 1;
         } else {
s_reg3:     map := map \cup {2};
         };
s_done:  subDone := TRUE; subDoneAt := Len(pushed);
}
process (unsub \in {"unsub"})
{
u_start: if (WithUnsub) {
u_clear:    live := live \ {1};                           \* Observer::unsubscribe clears the callback slots ...
u_rm:       map := map \ {1};                             \* ... then the teardown removes the map entry
            unsubAt := Len(pushed);
         }
}
} *)
\* BEGIN TRANSLATION (chksum(pcal) = "96cee405" /\ chksum(tla) = "f37aca4d")
VARIABLES pc, map, live, items, itemsR, last, got, pushed, subDone, subDoneAt, 
          unsubAt

(* define statement *)
Done == \A p \in {"prod", "sub", "unsub"} : pc[p] = "Done"
NoDup == \A o \in {1, 2} : \A i, j \in 1..Len(got[o]) : i # j => got[o][i] # got[o][j]
InOrder == \A o \in {1, 2} : \A i, j \in 1..Len(got[o]) : i < j => (got[o][i] < got[o][j] \/ got[o][i] = Init0)

StableGetsAll == (Done /\ ~WithUnsub) => SelectSeq(got[1], LAMBDA v : v # Init0) = pushed

LateSuffix == Done => LET g == SelectSeq(got[2], LAMBDA v : v # Init0)
                      IN /\ \A i \in 1..Len(g) : g[i] = NValues - Len(g) + i
                         /\ (Kind = "replay" => Len(g) = NValues)
                         /\ \A v \in 1..NValues : v > subDoneAt => \E i \in 1..Len(g) : g[i] = v
BehaviorFirst == (Done /\ Kind = "behavior") => Len(got[2]) >= 1

VARIABLES k, snap, i, h, v0

vars == << pc, map, live, items, itemsR, last, got, pushed, subDone, 
           subDoneAt, unsubAt, k, snap, i, h, v0 >>

ProcSet == ({"prod"}) \cup ({"sub"}) \cup ({"unsub"})

Init == (* Global variables *)
        /\ map = {1}
        /\ live = {1, 2}
        /\ items = <<>>
        /\ itemsR = 0
        /\ last = Init0
        /\ got = [o \in {1, 2} |-> <<>>]
        /\ pushed = <<>>
        /\ subDone = FALSE
        /\ subDoneAt = 0
        /\ unsubAt = 0
        (* Process prod *)
        /\ k = [self \in {"prod"} |-> 1]
        /\ snap = [self \in {"prod"} |-> {}]
        (* Process sub *)
        /\ i = [self \in {"sub"} |-> 1]
        /\ h = [self \in {"sub"} |-> <<>>]
        /\ v0 = [self \in {"sub"} |-> 0]
        /\ pc = [self \in ProcSet |-> CASE self \in {"prod"} -> "p_loop"
                                        [] self \in {"sub"} -> "s_start"
                                        [] self \in {"unsub"} -> "u_start"]

p_loop(self) == /\ pc[self] = "p_loop"
                /\ IF k[self] <= NValues
                      THEN /\ pc' = [pc EXCEPT ![self] = "p_store"]
                      ELSE /\ pc' = [pc EXCEPT ![self] = "Done"]
                /\ UNCHANGED << map, live, items, itemsR, last, got, pushed, 
                                subDone, subDoneAt, unsubAt, k, snap, i, h, v0 >>

p_store(self) == /\ pc[self] = "p_store"
                 /\ pushed' = Append(pushed, k[self])
                 /\ IF Kind = "replay"
                       THEN /\ itemsR = 0
                            /\ items' = Append(items, k[self])
                            /\ last' = last
                       ELSE /\ IF Kind = "behavior"
                                  THEN /\ last' = k[self]
                                  ELSE /\ TRUE
                                       /\ last' = last
                            /\ items' = items
                 /\ pc' = [pc EXCEPT ![self] = "p_snap"]
                 /\ UNCHANGED << map, live, itemsR, got, subDone, subDoneAt, 
                                 unsubAt, k, snap, i, h, v0 >>

p_snap(self) == /\ pc[self] = "p_snap"
                /\ snap' = [snap EXCEPT ![self] = map]
                /\ pc' = [pc EXCEPT ![self] = "p_c1"]
                /\ UNCHANGED << map, live, items, itemsR, last, got, pushed, 
                                subDone, subDoneAt, unsubAt, k, i, h, v0 >>

p_c1(self) == /\ pc[self] = "p_c1"
              /\ IF 1 \in snap[self]
                    THEN /\ IF 1 \in live
                               THEN /\ got' = [got EXCEPT ![1] = Append(got[1], k[self])]
                               ELSE /\ TRUE
                                    /\ got' = got
                    ELSE /\ TRUE
                         /\ got' = got
              /\ pc' = [pc EXCEPT ![self] = "p_c2"]
              /\ UNCHANGED << map, live, items, itemsR, last, pushed, subDone, 
                              subDoneAt, unsubAt, k, snap, i, h, v0 >>

p_c2(self) == /\ pc[self] = "p_c2"
              /\ IF 2 \in snap[self]
                    THEN /\ IF 2 \in live
                               THEN /\ got' = [got EXCEPT ![2] = Append(got[2], k[self])]
                               ELSE /\ TRUE
                                    /\ got' = got
                    ELSE /\ TRUE
                         /\ got' = got
              /\ k' = [k EXCEPT ![self] = k[self] + 1]
              /\ pc' = [pc EXCEPT ![self] = "p_loop"]
              /\ UNCHANGED << map, live, items, itemsR, last, pushed, subDone, 
                              subDoneAt, unsubAt, snap, i, h, v0 >>

prod(self) == p_loop(self) \/ p_store(self) \/ p_snap(self) \/ p_c1(self)
                 \/ p_c2(self)

s_start(self) == /\ pc[self] = "s_start"
                 /\ IF Kind = "behavior"
                       THEN /\ pc' = [pc EXCEPT ![self] = "s_copy"]
                       ELSE /\ IF Kind = "replay"
                                  THEN /\ pc' = [pc EXCEPT ![self] = "s_reg2"]
                                  ELSE /\ pc' = [pc EXCEPT ![self] = "s_reg3"]
                 /\ UNCHANGED << map, live, items, itemsR, last, got, pushed, 
                                 subDone, subDoneAt, unsubAt, k, snap, i, h, 
                                 v0 >>

s_copy(self) == /\ pc[self] = "s_copy"
                /\ v0' = [v0 EXCEPT ![self] = last]
                /\ pc' = [pc EXCEPT ![self] = "s_hand"]
                /\ UNCHANGED << map, live, items, itemsR, last, got, pushed, 
                                subDone, subDoneAt, unsubAt, k, snap, i, h >>

s_hand(self) == /\ pc[self] = "s_hand"
                /\ IF 2 \in live
                      THEN /\ got' = [got EXCEPT ![2] = Append(got[2], v0[self])]
                      ELSE /\ TRUE
                           /\ got' = got
                /\ pc' = [pc EXCEPT ![self] = "s_reg"]
                /\ UNCHANGED << map, live, items, itemsR, last, pushed, 
                                subDone, subDoneAt, unsubAt, k, snap, i, h, v0 >>

s_reg(self) == /\ pc[self] = "s_reg"
               /\ map' = (map \cup {2})
               /\ pc' = [pc EXCEPT ![self] = "s_done"]
               /\ UNCHANGED << live, items, itemsR, last, got, pushed, subDone, 
                               subDoneAt, unsubAt, k, snap, i, h, v0 >>

s_reg2(self) == /\ pc[self] = "s_reg2"
                /\ map' = (map \cup {2})
                /\ pc' = [pc EXCEPT ![self] = "s_rd"]
                /\ UNCHANGED << live, items, itemsR, last, got, pushed, 
                                subDone, subDoneAt, unsubAt, k, snap, i, h, v0 >>

s_rd(self) == /\ pc[self] = "s_rd"
              /\ itemsR' = itemsR + 1
              /\ h' = [h EXCEPT ![self] = items]
              /\ pc' = [pc EXCEPT ![self] = "s_rep"]
              /\ UNCHANGED << map, live, items, last, got, pushed, subDone, 
                              subDoneAt, unsubAt, k, snap, i, v0 >>

s_rep(self) == /\ pc[self] = "s_rep"
               /\ IF i[self] <= Len(h[self])
                     THEN /\ IF 2 \in live
                                THEN /\ got' = [got EXCEPT ![2] = Append(got[2], (h[self][i[self]]))]
                                ELSE /\ TRUE
                                     /\ got' = got
                          /\ i' = [i EXCEPT ![self] = i[self] + 1]
                          /\ pc' = [pc EXCEPT ![self] = "s_rep"]
                     ELSE /\ pc' = [pc EXCEPT ![self] = "s_rel"]
                          /\ UNCHANGED << got, i >>
               /\ UNCHANGED << map, live, items, itemsR, last, pushed, subDone, 
                               subDoneAt, unsubAt, k, snap, h, v0 >>

s_rel(self) == /\ pc[self] = "s_rel"
               /\ itemsR' = itemsR - 1
               /\ pc' = [pc EXCEPT ![self] = "s_done"]
               /\ UNCHANGED << map, live, items, last, got, pushed, subDone, 
                               subDoneAt, unsubAt, k, snap, i, h, v0 >>

s_reg3(self) == /\ pc[self] = "s_reg3"
                /\ map' = (map \cup {2})
                /\ pc' = [pc EXCEPT ![self] = "s_done"]
                /\ UNCHANGED << live, items, itemsR, last, got, pushed, 
                                subDone, subDoneAt, unsubAt, k, snap, i, h, v0 >>

s_done(self) == /\ pc[self] = "s_done"
                /\ subDone' = TRUE
                /\ subDoneAt' = Len(pushed)
                /\ pc' = [pc EXCEPT ![self] = "Done"]
                /\ UNCHANGED << map, live, items, itemsR, last, got, pushed, 
                                unsubAt, k, snap, i, h, v0 >>

sub(self) == s_start(self) \/ s_copy(self) \/ s_hand(self) \/ s_reg(self)
                \/ s_reg2(self) \/ s_rd(self) \/ s_rep(self) \/ s_rel(self)
                \/ s_reg3(self) \/ s_done(self)

u_start(self) == /\ pc[self] = "u_start"
                 /\ IF WithUnsub
                       THEN /\ pc' = [pc EXCEPT ![self] = "u_clear"]
                       ELSE /\ pc' = [pc EXCEPT ![self] = "Done"]
                 /\ UNCHANGED << map, live, items, itemsR, last, got, pushed, 
                                 subDone, subDoneAt, unsubAt, k, snap, i, h, 
                                 v0 >>

u_clear(self) == /\ pc[self] = "u_clear"
                 /\ live' = live \ {1}
                 /\ pc' = [pc EXCEPT ![self] = "u_rm"]
                 /\ UNCHANGED << map, items, itemsR, last, got, pushed, 
                                 subDone, subDoneAt, unsubAt, k, snap, i, h, 
                                 v0 >>

u_rm(self) == /\ pc[self] = "u_rm"
              /\ map' = map \ {1}
              /\ unsubAt' = Len(pushed)
              /\ pc' = [pc EXCEPT ![self] = "Done"]
              /\ UNCHANGED << live, items, itemsR, last, got, pushed, subDone, 
                              subDoneAt, k, snap, i, h, v0 >>

unsub(self) == u_start(self) \/ u_clear(self) \/ u_rm(self)

(* Allow infinite stuttering to prevent deadlock on termination. *)
Terminating == /\ \A self \in ProcSet: pc[self] = "Done"
               /\ UNCHANGED vars

Next == (\E self \in {"prod"}: prod(self))
           \/ (\E self \in {"sub"}: sub(self))
           \/ (\E self \in {"unsub"}: unsub(self))
           \/ Terminating

Spec == Init /\ [][Next]_vars

Termination == <>(\A self \in ProcSet: pc[self] = "Done")

\* END TRANSLATION 
=============================================================================
