------------------------------- MODULE SinkInd -------------------------------
(* Unbounded-history companion of SinkConc: the same lock-operation-level steps of one subscriber Observer (three callback
   slots, terminals arbitrated on the next slot) behind one StreamController, but every thread performs an ARBITRARY, unbounded
   sequence of calls (next / error / complete / unsubscribe, chosen at each start), and the history is abstracted to what the
   C19 / C05 clauses need:

     terms      number of terminal callbacks delivered so far
     lateCb     a callback was delivered by a call that STARTED after a terminal callback had happened or after an
                unsubscribe() had returned
     late[t]    the current call of thread t started in such a moment

   Safety == terms <= 1 /\ ~lateCb   (C19: at most one terminal, nothing started after it is delivered; C05: nothing started
   after unsubscribe() returned is delivered).  IndInv is an inductive invariant implying Safety; Apalache discharges
   Init => IndInv and IndInv /\ Next => IndInv' for the given set of threads, i.e. for histories of any length (TLC's check of
   SinkConc is exhaustive only up to MaxCalls calls per thread).  The finalize() tail is the single read of the next slot that
   SinkConc (WithFinalize) shows to be the only reachable part of it. *)
EXTENDS Integers, FiniteSets
CONSTANT
  \* @type: Set(Int);
  Threads
VARIABLES
  \* @type: Bool;
  slotN,
  \* @type: Bool;
  slotE,
  \* @type: Bool;
  slotC,
  \* @type: Int -> Str;
  pc,
  \* @type: Int -> Str;
  cur,
  \* @type: Int -> Bool;
  got,
  \* @type: Int;
  terms,
  \* @type: Bool;
  unsubDone,
  \* @type: Int -> Bool;
  late,
  \* @type: Bool;
  lateCb

ConstInit == Threads = {1, 2, 3}
Calls == {"next", "error", "complete", "unsub"}
Labels == {"idle", "chkN", "chkE", "chkC", "n1", "n2", "e0", "e1", "e2", "e3", "c0", "c1", "c2", "c3", "u1", "u2", "u3", "f1", "ret"}

Init == /\ slotN = TRUE /\ slotE = TRUE /\ slotC = TRUE
        /\ pc = [t \in Threads |-> "idle"] /\ cur = [t \in Threads |-> "next"] /\ got = [t \in Threads |-> FALSE]
        /\ terms = 0 /\ unsubDone = FALSE /\ late = [t \in Threads |-> FALSE] /\ lateCb = FALSE

Goto(t, l) == pc' = [pc EXCEPT ![t] = l]
Start(t) == /\ pc[t] = "idle"
            /\ \E c \in Calls : /\ cur' = [cur EXCEPT ![t] = c]
                                /\ Goto(t, IF c = "unsub" THEN "u1" ELSE "chkN")
            /\ late' = [late EXCEPT ![t] = (terms >= 1 \/ unsubDone)]
            /\ UNCHANGED <<slotN, slotE, slotC, got, terms, unsubDone, lateCb>>
ChkN(t) == pc[t] = "chkN" /\ Goto(t, IF slotN THEN "chkE" ELSE "f1") /\ UNCHANGED <<slotN, slotE, slotC, cur, got, terms, unsubDone, late, lateCb>>
ChkE(t) == pc[t] = "chkE" /\ Goto(t, IF slotE THEN "chkC" ELSE "f1") /\ UNCHANGED <<slotN, slotE, slotC, cur, got, terms, unsubDone, late, lateCb>>
ChkC(t) == /\ pc[t] = "chkC"
           /\ Goto(t, IF ~slotC THEN "f1" ELSE IF cur[t] = "next" THEN "n1" ELSE IF cur[t] = "error" THEN "e0" ELSE "c0")
           /\ UNCHANGED <<slotN, slotE, slotC, cur, got, terms, unsubDone, late, lateCb>>
N1(t) == pc[t] = "n1" /\ got' = [got EXCEPT ![t] = slotN] /\ Goto(t, "n2") /\ UNCHANGED <<slotN, slotE, slotC, cur, terms, unsubDone, late, lateCb>>
N2(t) == /\ pc[t] = "n2" /\ Goto(t, "ret")
         /\ lateCb' = (lateCb \/ (got[t] /\ late[t]))
         /\ UNCHANGED <<slotN, slotE, slotC, cur, got, terms, unsubDone, late>>
E0(t) == pc[t] = "e0" /\ slotN' = FALSE /\ Goto(t, IF slotN THEN "e1" ELSE "f1") /\ UNCHANGED <<slotE, slotC, cur, got, terms, unsubDone, late, lateCb>>
E1(t) == pc[t] = "e1" /\ slotC' = FALSE /\ Goto(t, "e2") /\ UNCHANGED <<slotN, slotE, cur, got, terms, unsubDone, late, lateCb>>
E2(t) == pc[t] = "e2" /\ got' = [got EXCEPT ![t] = slotE] /\ slotE' = FALSE /\ Goto(t, "e3") /\ UNCHANGED <<slotN, slotC, cur, terms, unsubDone, late, lateCb>>
E3(t) == /\ pc[t] = "e3" /\ Goto(t, "f1")
         /\ terms' = IF got[t] THEN terms + 1 ELSE terms
         /\ lateCb' = (lateCb \/ (got[t] /\ late[t]))
         /\ UNCHANGED <<slotN, slotE, slotC, cur, got, unsubDone, late>>
C0(t) == pc[t] = "c0" /\ slotN' = FALSE /\ Goto(t, IF slotN THEN "c1" ELSE "f1") /\ UNCHANGED <<slotE, slotC, cur, got, terms, unsubDone, late, lateCb>>
C1(t) == pc[t] = "c1" /\ slotE' = FALSE /\ Goto(t, "c2") /\ UNCHANGED <<slotN, slotC, cur, got, terms, unsubDone, late, lateCb>>
C2(t) == pc[t] = "c2" /\ got' = [got EXCEPT ![t] = slotC] /\ slotC' = FALSE /\ Goto(t, "c3") /\ UNCHANGED <<slotN, slotE, cur, terms, unsubDone, late, lateCb>>
C3(t) == /\ pc[t] = "c3" /\ Goto(t, "f1")
         /\ terms' = IF got[t] THEN terms + 1 ELSE terms
         /\ lateCb' = (lateCb \/ (got[t] /\ late[t]))
         /\ UNCHANGED <<slotN, slotE, slotC, cur, got, unsubDone, late>>
U1(t) == pc[t] = "u1" /\ slotN' = FALSE /\ Goto(t, "u2") /\ UNCHANGED <<slotE, slotC, cur, got, terms, unsubDone, late, lateCb>>
U2(t) == pc[t] = "u2" /\ slotE' = FALSE /\ Goto(t, "u3") /\ UNCHANGED <<slotN, slotC, cur, got, terms, unsubDone, late, lateCb>>
U3(t) == pc[t] = "u3" /\ slotC' = FALSE /\ Goto(t, "f1") /\ UNCHANGED <<slotN, slotE, cur, got, terms, unsubDone, late, lateCb>>
\* finalize(): is_subscribed() finds the next slot empty on every path that leads here
F1(t) == pc[t] = "f1" /\ ~slotN /\ Goto(t, "ret") /\ UNCHANGED <<slotN, slotE, slotC, cur, got, terms, unsubDone, late, lateCb>>
Ret(t) == /\ pc[t] = "ret" /\ Goto(t, "idle")
          /\ unsubDone' = (unsubDone \/ cur[t] = "unsub")
          /\ late' = [late EXCEPT ![t] = FALSE]
          /\ UNCHANGED <<slotN, slotE, slotC, cur, got, terms, lateCb>>
Step(t) == Start(t) \/ ChkN(t) \/ ChkE(t) \/ ChkC(t) \/ N1(t) \/ N2(t) \/ E0(t) \/ E1(t) \/ E2(t) \/ E3(t)
           \/ C0(t) \/ C1(t) \/ C2(t) \/ C3(t) \/ U1(t) \/ U2(t) \/ U3(t) \/ F1(t) \/ Ret(t)
Next == \E t \in Threads : Step(t)

\* ---------------------------------------------------------------- safety and its inductive strengthening
Safety == terms <= 1 /\ ~lateCb
TypeOK == /\ slotN \in BOOLEAN /\ slotE \in BOOLEAN /\ slotC \in BOOLEAN
          /\ pc \in [Threads -> Labels] /\ cur \in [Threads -> Calls] /\ got \in [Threads -> BOOLEAN]
          /\ terms \in 0..2 /\ unsubDone \in BOOLEAN /\ late \in [Threads -> BOOLEAN] /\ lateCb \in BOOLEAN
Winners == { t \in Threads : pc[t] \in {"e1", "e2", "e3", "c1", "c2", "c3"} }
IndInv ==
  /\ TypeOK
  /\ Safety
  \* the next slot is the arbiter: it is empty as soon as a terminal was delivered, an unsubscribe returned, or somebody won it
  /\ (terms >= 1 => ~slotN)
  /\ (unsubDone => ~slotN /\ ~slotE /\ ~slotC)
  /\ (Winners # {} => ~slotN)
  /\ (~slotE \/ ~slotC => ~slotN)          \* the terminal slots are only emptied by whoever emptied the next slot first
  /\ Cardinality(Winners) + terms <= 1
  \* program-counter facts
  /\ \A t \in Threads :
       /\ (pc[t] \in {"n1", "n2"} => cur[t] = "next")
       /\ (pc[t] \in {"e0", "e1", "e2", "e3"} => cur[t] = "error")
       /\ (pc[t] \in {"c0", "c1", "c2", "c3"} => cur[t] = "complete")
       /\ (pc[t] \in {"u1", "u2", "u3"} => cur[t] = "unsub")
       /\ (pc[t] \in {"chkN", "chkE", "chkC"} => cur[t] # "unsub")
       /\ (pc[t] \in {"f1", "u2", "u3"} => ~slotN)
       /\ (pc[t] = "u3" => ~slotE)
       /\ (cur[t] = "unsub" /\ pc[t] \in {"f1", "ret"} => ~slotN /\ ~slotE /\ ~slotC)
       \* a call that started late never gets past the first check
       /\ (late[t] => ~slotN /\ pc[t] \in {"chkN", "f1", "ret", "u1", "u2", "u3"})
IndInit == IndInv
=============================================================================
