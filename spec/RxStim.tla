------------------------------- MODULE RxStim -------------------------------
(* The harness stimuli as functions on the L1 heap: Apply(h, handles, cfg, root, st) is what one stimulus of the
   harness does to the model -- the new heap, the events it produced, the verdict, the observer counts.
   Shared by RxSeqMC (TLC enumerates the stimuli) and RxSeqTrace (the stimuli are read from a recorded trace). *)
EXTENDS RxSeq

NProbes == 3
SbjInit(kind, hook) == [kind |-> kind, map |-> <<>>, serial |-> 0, items |-> <<>>, last |-> [has |-> kind = "behavior", v |-> 9],
                        err |-> [has |-> FALSE, v |-> 0], completed |-> FALSE, hook |-> hook]
\* subjects 1..Len(c.sbj) are the harness subjects; then one subject per connectable (ref_count / replay: with connect hooks)
InitHeap(c, t) ==
  LET ns == Len(c.sbj) IN
  [ EmptyHeap EXCEPT !.regs = [i \in 1..NProbes |-> <<>>],
                     !.sbj = [j \in 1..(ns + Len(c.conn)) |->
                                IF j <= ns THEN SbjInit(c.sbj[j], 0)
                                ELSE LET k == c.conn[j - ns].kind IN SbjInit(IF k = "replay" THEN "replay" ELSE "plain", IF k = "publish" THEN 0 ELSE j - ns)],
                     !.conn = [i \in 1..Len(c.conn) |-> [kind |-> c.conn[i].kind, j |-> ns + i, term |-> c.conn[i].term, some |-> FALSE, obs |-> 0, live |-> FALSE]],
                     !.sinkcnt = [u \in 1..3 |-> IF u = 1 THEN [NoReact EXCEPT !.unsub_at = c.react.unsub_at, !.emit_at = c.react.emit_at, !.sub_at = c.react.sub_at] ELSE NoReact] ]


Stim(k, a, b, v, e) == [k |-> k, a |-> a, b |-> b, v |-> v, e |-> e]
FinOf(hh) == IF hh.stuck = "" THEN "ok" ELSE IF hh.stuck = "budget" THEN "budget" ELSE "stuck"
CountsOf(hh, c) == [j \in 1..(Len(c.sbj) + Len(c.conn)) |-> Len(hh.sbj[j].map)]
Clear(hh) == [hh EXCEPT !.out = <<>>, !.fuel = Fuel]
\* result of a stimulus
Res(hh, hs, c) == [h |-> Clear(hh), handles |-> hs, obs |-> hh.out, fin |-> FinOf(hh), cnt |-> IF hh.stuck = "" THEN CountsOf(hh, c) ELSE <<>>, div |-> hh.div]

\* is the stimulus possible in this state of the harness?
CanApply(h, handles, c, st) ==
  CASE st.k = "sub" -> Len(handles) = st.a - 1
    [] st.k = "emit" -> st.a \in 1..Len(h.regs) /\ st.b \in 1..Len(h.regs[st.a])
    [] st.k \in {"unsub", "query", "using", "using_panic"} -> st.a \in 1..Len(handles)
    [] st.k = "subj" -> st.a \in 1..Len(c.sbj)
    [] st.k = "connect" -> st.a \in 1..Len(c.conn) /\ c.conn[st.a].kind = "publish" /\ ~h.conn[st.a].some
    [] st.k = "disconnect" -> st.a \in 1..Len(c.conn) /\ c.conn[st.a].kind = "publish" /\ h.conn[st.a].some
    [] OTHER -> FALSE

Apply(h, handles, c, root, st) ==
  CASE st.k = "sub" ->
         LET u == st.a
             o == Len(h.obs) + 1
             h1 == [h EXCEPT !.obs = Append(@, NewObs(SinkHd(u)))]
             h2 == Subscribe(h1, root, o)
             h3 == IF h2.stuck # "" THEN h2 ELSE [h2 EXCEPT !.sinkcnt[u].handle = o, !.sinkcnt[u].live = TRUE]
         IN Res(h3, Append(handles, [obs |-> o]), c)
    [] st.k = "emit" ->
         LET o == h.regs[st.a][st.b]
             h1 == Emit(h, Ev5("probe", st.a, "issub", IF IsSub(h, o) THEN 1 ELSE 0, st.b))
             h2 == CASE st.e = "n" -> CallNext(h1, o, st.v) [] st.e = "e" -> CallError(h1, o, st.v) [] OTHER -> CallComplete(h1, o)
         IN Res(h2, handles, c)
    \* Subscription::unsubscribe() of sink hn's handle (call-and-clear: only the first call acts), then is_subscribed()
    \* utils::Using: dropping the guard (at scope exit, or by unwinding out of a panic) unsubscribes
    [] st.k \in {"unsub", "using", "using_panic"} ->
         LET hn == st.a
             hd == handles[hn]
             h1 == IF h.sinkcnt[hn].live THEN Unsub([h EXCEPT !.sinkcnt[hn].live = FALSE], hd.obs) ELSE h
             h2 == Emit(Emit(h1, Ev("mark", hn, "unsubret", 0)), Ev("ans", hn, "issub", IF IsSub(h1, hd.obs) THEN 1 ELSE 0))
         IN Res(IF h1.stuck # "" THEN h1 ELSE h2, handles, c)
    [] st.k = "query" -> Res(Emit(h, Ev("ans", st.a, "issub", IF IsSub(h, handles[st.a].obs) THEN 1 ELSE 0)), handles, c)
    [] st.k = "subj" ->
         Res(CASE st.e = "n" -> SubjNext(h, st.a, st.v) [] st.e = "e" -> SubjError(h, st.a, st.v) [] OTHER -> SubjComplete(h, st.a), handles, c)
    \* Publish::connect(): subscribe the source with an observer that forwards into the connectable's subject
    [] st.k = "connect" ->
         LET k == st.a
             g == Len(h.obs) + 1
             h1 == [h EXCEPT !.obs = Append(@, NewObs(ToSbjHd(h.conn[k].j)))]
             h2 == Subscribe(h1, h1.conn[k].term, g)
             h3 == IF h2.stuck # "" THEN h2 ELSE [h2 EXCEPT !.conn[k].some = TRUE, !.conn[k].obs = g, !.conn[k].live = TRUE]
         IN Res(h3, handles, c)
    [] st.k = "disconnect" ->
         \* (the connection handle is spent: a later connect() subscribes the source anew)
         LET k == st.a IN Res(IF h.conn[k].live THEN Unsub([h EXCEPT !.conn[k].live = FALSE, !.conn[k].some = FALSE], h.conn[k].obs)
                              ELSE [h EXCEPT !.conn[k].some = FALSE], handles, c)
=============================================================================
