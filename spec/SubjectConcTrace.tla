--------------------------- MODULE SubjectConcTrace ---------------------------
(* Lock-level conformance (drift) of the real plain Subject with the L1 design model SubjectConc (Kind = "plain").
   The facade logs every lock operation and the creation of every lock; /verif/lib keeps, per execution of a case with one
   producer thread, one late subscriber (observer 2) and optionally one unsubscribing thread (observer 1):

     prod:   call(v)     Subject::next(v) begins                                   = p_store (values renumbered 1..NValues)
             snap        read acquisition of the subject's observer table          = p_snap
             try(o, d)   read acquisition of observer o's next slot; d = the callback ran  = p_c1 / p_c2, and d = (o \in live)
             cb(o, v)    the callback of observer o ran with v                     = assertion: the model delivered v to o last
             ret         next() returned                                            = assertion: the model is back at p_loop
     sub:    subcall / reg (write acquisition of the table) / subret               = s_start, s_reg3, s_done
     unsub:  unsubcall / clear (write acquisition of observer 1's next slot) / rm (write acquisition of the table) / unsubret
                                                                                   = u_start, u_clear, u_rm, Done

   Control-only labels of the PlusCal text (p_loop, p_c1 / p_c2 for an observer that is not in the snapshot) have no lock
   operation and are silent steps.  A log SubjectConc cannot follow means the code no longer performs the steps of the
   model-checked design.  The invariants of the design model are evaluated along the real execution as well. *)
EXTENDS SubjectConc, Json, IOUtils
Rec == ndJsonDeserialize(IOEnv.TRACE)
VARIABLE l
tvars == <<vars, l>>
R == Rec[l]
Is(op) == l <= Len(Rec) /\ R.ev = op /\ l' = l + 1

TInit == Init /\ l = 1 /\ TLCSet(42, 1)
\* a new execution: everything back to the initial state of the model
Reset == /\ Is("reset")
         /\ map' = {1} /\ live' = {1, 2} /\ items' = <<>> /\ itemsR' = 0 /\ last' = Init0
         /\ got' = [o \in {1, 2} |-> <<>>] /\ pushed' = <<>> /\ subDone' = FALSE /\ subDoneAt' = 0 /\ unsubAt' = 0
         /\ k' = [self \in {"prod"} |-> 1] /\ snap' = [self \in {"prod"} |-> {}]
         /\ i' = [self \in {"sub"} |-> 1] /\ h' = [self \in {"sub"} |-> <<>>] /\ v0' = [self \in {"sub"} |-> 0]
         /\ pc' = [self \in ProcSet |-> CASE self = "prod" -> "p_loop" [] self = "sub" -> "s_start" [] OTHER -> "u_start"]
Last(s) == s[Len(s)]
Event ==
  \/ Is("call") /\ p_store("prod") /\ k["prod"] = R.v
  \/ Is("snap") /\ p_snap("prod")
  \/ Is("try") /\ ((R.o = 1 /\ 1 \in snap["prod"] /\ p_c1("prod")) \/ (R.o = 2 /\ 2 \in snap["prod"] /\ p_c2("prod")))
               /\ (R.v = 1) = (R.o \in live)          \* the callback ran iff the model says the slot is still there
  \/ Is("cb") /\ got[R.o] # <<>> /\ Last(got[R.o]) = R.v /\ UNCHANGED vars
  \/ Is("ret") /\ pc["prod"] = "p_loop" /\ UNCHANGED vars
  \/ Is("subcall") /\ s_start("sub")
  \/ Is("reg") /\ s_reg3("sub")
  \/ Is("subret") /\ s_done("sub")
  \/ Is("unsubcall") /\ u_start("unsub")
  \/ Is("clear") /\ u_clear("unsub")
  \/ Is("rm") /\ u_rm("unsub")
  \/ Is("unsubret") /\ pc["unsub"] = "Done" /\ UNCHANGED vars
Silent == /\ UNCHANGED l
          /\ \/ p_loop("prod")
             \/ (1 \notin snap["prod"] /\ p_c1("prod"))
             \/ (2 \notin snap["prod"] /\ p_c2("prod"))
TNext == Reset \/ Event \/ Silent
TSpec == TInit /\ [][TNext]_tvars
Progress == TLCSet(42, IF TLCGet(42) < l THEN l ELSE TLCGet(42))
ModelInvariants == NoDup /\ InOrder
Accepted == IF TLCGet(42) = Len(Rec) + 1 THEN TRUE
            ELSE Print(<<"DRIFT: SubjectConc cannot follow the lock log at line", TLCGet(42), Rec[TLCGet(42)]>>, FALSE)
=============================================================================
