----------------------------- MODULE ConcTrace -----------------------------
(* Trace validation of concurrent executions of the real crate against the property-level monitors of ConcProps.
   One `reset` line per explored schedule, then its visible events in the runtime's total order, then `quiesce`
   (the final verdict of the runtime: every thread finished / some thread blocked forever / step budget exhausted).
   The monitors are evaluated when the execution is complete; the verdict of each execution is printed as JSON. *)
EXTENDS ConcProps, Json, IOUtils
Rec == ndJsonDeserialize(IOEnv.TRACE)
VARIABLES l, E, meta
tvars == <<l, E, meta>>
R == Rec[l]
Init == l = 1 /\ E = <<>> /\ meta = [id |-> 0, tags |-> <<>>, name |-> "", period |-> 0, expect |-> <<>>]
TReset == /\ l <= Len(Rec) /\ R.ev = "reset" /\ l' = l + 1
          /\ E' = <<>> /\ meta' = [id |-> R.id, tags |-> R.tags, name |-> R.name, period |-> R.period, expect |-> R.expect]
TEvent == /\ l <= Len(Rec) /\ R.ev \notin {"reset", "quiesce"} /\ l' = l + 1
          /\ E' = Append(E, [ev |-> R.ev, t |-> R.t, u |-> R.u, src |-> R.src, k |-> R.k, v |-> R.v, task |-> R.task, clk |-> R.clk, issub |-> R.issub, cnt |-> R.cnt, fb |-> R.fb])
          /\ UNCHANGED meta
TQuiesce == /\ l <= Len(Rec) /\ R.ev = "quiesce" /\ l' = l + 1
            /\ PrintT(ToJson([trace |-> meta.id, name |-> meta.name, rej |-> Judge(E, meta.tags, [fin |-> R.fin, nblocked |-> R.nblocked, nparked |-> R.nparked, clk |-> R.clk, period |-> meta.period, expect |-> meta.expect]), fin |-> R.fin, events |-> Len(E)]))
            /\ UNCHANGED <<E, meta>>
Next == TReset \/ TEvent \/ TQuiesce
Spec == Init /\ [][Next]_tvars
Consumed == IF TLCGet("stats").diameter = Len(Rec) + 1 THEN TRUE
            ELSE Print(<<"NOT-CONSUMED: validation stopped before line", TLCGet("stats").diameter, "of", Len(Rec)>>, FALSE)
=============================================================================
