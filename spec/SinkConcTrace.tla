---------------------------- MODULE SinkConcTrace ----------------------------
(* Lock-level conformance (drift) of the real subscriber Observer / StreamController with the L1 design model SinkConc.
   The facade logs every lock operation of a run together with the creation of every lock (site = source line).  /verif/lib
   identifies the three callback slots of subscriber 1 (the first three locks created at FunctionWrapper's RwLock::new
   after its subscribe call began: fn_next, fn_error, fn_complete in the field order of Observer::new), keeps the
   acquisitions of exactly these three locks by the emitting / unsubscribing threads, and brackets them with the calls:

     call(k)   the thread starts Subject::next / error / complete or Subscription::unsubscribe      = SinkConc!Start
     R_N R_E R_C / W_N W_E W_C   a read / write acquisition of a slot                                = exactly one step of SinkConc
     cb(k)     the subscriber's callback runs                                                        = N2 / E3 / C3 with got
     ret       the call returned                                                                     = SinkConc!Ret

   Every line must be one SinkConc action of that thread (WithFinalize = TRUE).  Two things the model leaves out are
   allowed explicitly: a call that never reaches the subscriber (absorbed by the Subject's cleared observer table or by
   the arbitration of the operator's own upstream observer) is `call` directly followed by `ret`; a callback slot found
   empty produces no `cb` line (the model's N2 / E3 / C3 with got = FALSE is a silent step).
   A log SinkConc cannot follow means the code no longer performs the steps the model-checked design performs. *)
EXTENDS SinkConc, Json, IOUtils
Rec == ndJsonDeserialize(IOEnv.TRACE)
VARIABLE l
tvars == <<vars, l>>
R == Rec[l]
Is(op) == l <= Len(Rec) /\ R.ev = op /\ l' = l + 1

TInit == /\ l = 1 /\ TLCSet(42, 1)
         /\ Scripts = [t \in Threads |-> <<>>]
         /\ slotN = TRUE /\ slotE = TRUE /\ slotC = TRUE
         /\ pc = [t \in Threads |-> "idle"] /\ ip = [t \in Threads |-> 1] /\ got = [t \in Threads |-> FALSE]
         /\ hist = <<>> /\ clock = 0
Reset == /\ Is("reset")
         /\ Scripts' = [t \in Threads |-> IF t <= Len(R.scripts) THEN [i \in 1..Len(R.scripts[t]) |-> R.scripts[t][i]] ELSE <<>>]
         /\ slotN' = TRUE /\ slotE' = TRUE /\ slotC' = TRUE
         /\ pc' = [t \in Threads |-> "idle"] /\ ip' = [t \in Threads |-> 1] /\ got' = [t \in Threads |-> FALSE]
         /\ hist' = <<>> /\ clock' = 0

CbKind(t) == CASE pc[t] = "n2" -> "n" [] pc[t] = "e3" -> "e" [] pc[t] = "c3" -> "c" [] OTHER -> "-"
Event ==
  LET t == R.t IN
  \/ Is("call") /\ Start(t) /\ Cur(t) = R.k
  \/ Is("R_N") /\ (ChkN(t) \/ N1(t) \/ F1(t))
  \/ Is("R_E") /\ (ChkE(t) \/ F2(t))
  \/ Is("R_C") /\ (ChkC(t) \/ F3(t))
  \/ Is("W_N") /\ (E0(t) \/ C0(t) \/ U1(t) \/ FU1(t))
  \/ Is("W_E") /\ (E2(t) \/ C1(t) \/ U2(t) \/ FU2(t))
  \/ Is("W_C") /\ (E1(t) \/ C2(t) \/ U3(t) \/ FU3(t))
  \/ Is("cb") /\ got[t] /\ CbKind(t) = R.k /\ (N2(t) \/ E3(t) \/ C3(t))
  \/ Is("ret") /\ Ret(t)
  \* the call was absorbed upstream: no step of the subscriber's Observer at all
  \/ Is("ret") /\ pc[t] = (IF Cur(t) = "unsub" THEN "u1" ELSE "chkN")
               /\ hist' = Append(hist, [k |-> "ret:" \o Cur(t), t |-> t, i |-> ip[t]]) /\ Done(t) /\ UNCHANGED <<slotN, slotE, slotC, got, clock>>
\* an empty callback slot: nothing is logged
Silent == \E t \in Threads : ~got[t] /\ (N2(t) \/ E3(t) \/ C3(t)) /\ UNCHANGED l
TNext == Reset \/ ((Event \/ Silent) /\ UNCHANGED Scripts)
TSpec == TInit /\ [][TNext]_tvars
\* progress register: the furthest line reached (workers 1)
Progress == TLCSet(42, IF TLCGet(42) < l THEN l ELSE TLCGet(42))
\* the invariants of the design model hold along the real execution as well
ModelInvariants == AtMostOneTerminal /\ NothingStartedAfterTerminal /\ UnsubStops
Accepted == IF TLCGet(42) = Len(Rec) + 1 THEN TRUE
            ELSE Print(<<"DRIFT: SinkConc cannot follow the lock log at line", TLCGet(42), Rec[TLCGet(42)]>>, FALSE)
=============================================================================
