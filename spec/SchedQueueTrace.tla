--------------------------- MODULE SchedQueueTrace ---------------------------
(* Lock-level conformance (drift) of the real scheduler queue with the L1 model SchedQueue.
   The facade logs every lock / condvar operation of the run with the lock's creation site; /verif/lib maps the site to
   its role (`queue` mutex, `abort` rwlock, the condvar) by reading the source line at that site in the checked tree, and
   renumbers the threads (0 = the scheduler's worker, 1.. = the posting client threads).  Every line must be exactly one
   action of SchedQueue taken by that thread, in order: the model is deterministic given the log, so validation is linear.
   A log that SchedQueue cannot follow means the code no longer performs the steps the model-checked design performs. *)
EXTENDS SchedQueue, Json, IOUtils
Rec == ndJsonDeserialize(IOEnv.TRACE)
VARIABLES l, ok
tvars == <<vars, l, ok>>
R == Rec[l]
Is(op) == l <= Len(Rec) /\ R.ev = op /\ l' = l + 1

TInit == /\ l = 1 /\ ok = TRUE
         /\ scripts = [t \in Clients |-> <<"post">>] /\ ip = [t \in Clients |-> 1]
         /\ pc = [t \in Threads |-> IF t = Worker THEN "w_lock" ELSE "idle"]
         /\ qm = -1 /\ ab = [w |-> -1, r |-> 0] /\ queue = <<>> /\ abort = FALSE /\ parked = {} /\ cur = 0
         /\ pushed = <<>> /\ started = <<>> /\ finished = {} /\ stopRet = FALSE /\ takenAfterStop = FALSE /\ running = 0

ScriptOf(s) == [i \in 1..Len(s) |-> s[i]]
Reset == /\ Is("reset")
         /\ scripts' = [t \in Clients |-> IF t <= Len(R.scripts) THEN ScriptOf(R.scripts[t]) ELSE <<>>] /\ ip' = [t \in Clients |-> 1]
         /\ pc' = [t \in Threads |-> IF t = Worker THEN "w_lock" ELSE "idle"]
         /\ qm' = -1 /\ ab' = [w |-> -1, r |-> 0] /\ queue' = <<>> /\ abort' = FALSE /\ parked' = {} /\ cur' = 0
         /\ pushed' = <<>> /\ started' = <<>> /\ finished' = {} /\ stopRet' = FALSE /\ takenAfterStop' = FALSE /\ running' = 0
         /\ ok' = TRUE

W(t) == t = Worker
Step ==
  \/ Is("acq_queue") /\ ((W(R.t) /\ (W_Lock \/ S_Lock(Worker))) \/ (~W(R.t) /\ (P_Lock(R.t) \/ S_Lock(R.t))))
  \/ Is("rel_queue") /\ ((W(R.t) /\ (W_Unlock \/ S_Unlock(Worker))) \/ (~W(R.t) /\ (P_Unlock(R.t) \/ S_Unlock(R.t))))
  \/ Is("acqR_abort") /\ W(R.t) /\ (W_ChkAcq \/ W_DecAcq)
  \/ Is("relR_abort") /\ W(R.t) /\ (W_ChkRel \/ W_DecRel)
  \/ Is("acqW_abort") /\ S_AbW(R.t)
  \/ Is("relW_abort") /\ S_AbRel(R.t)
  \/ Is("cvwait") /\ W(R.t) /\ W_Park
  \/ Is("cvwake") /\ W(R.t) /\ W_Wake
  \/ Is("notify") /\ ((pc[R.t] = "p_notify" /\ P_Notify(R.t)) \/ (pc[R.t] = "s_notify" /\ S_Notify(R.t)))
  \/ Is("postcall") /\ P_Call(R.t)
  \/ Is("postret") /\ P_Ret(R.t)
  \/ Is("abortcall") /\ (IF W(R.t) THEN pc[Worker] = "s_lock" /\ UNCHANGED vars ELSE S_Call(R.t))
  \/ Is("abortret") /\ S_Ret(R.t)
  \/ Is("start") /\ W_Start /\ cur = R.task
  \/ Is("end") /\ W_End
TNext == (Reset \/ (Step /\ UNCHANGED scripts)) /\ UNCHANGED ok
TSpec == TInit /\ [][TNext]_tvars
\* accepted iff every line was consumed; otherwise the first line SchedQueue cannot take is reported
Accepted == IF TLCGet("stats").diameter = Len(Rec) + 1 THEN TRUE
            ELSE Print(<<"DRIFT: SchedQueue cannot follow the lock log at line", TLCGet("stats").diameter, Rec[TLCGet("stats").diameter]>>, FALSE)
=============================================================================
