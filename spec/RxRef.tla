------------------------------- MODULE RxRef -------------------------------
(* L2 for C02 / C03 / C04 / C14: the *definition* of every operator and creation function as a causal function
   on timed event sequences, written from the ReactiveX text quoted in /repo/implementation_status.md.

   A timed trace is a sequence of events [t, k, v]: k = "n" (item v), "e" (error with payload v), "c" (complete);
   well-formed = items followed by at most one terminal.  The time t of an event is the index of the harness
   stimulus that caused it: t0 for everything a cold source emits inside subscribe(), the index of the
   `emit` stimulus for an event of a hot (probe) source.  Output events inherit the time of the input event
   that causes them, so the comparison with the implementation is per stimulus (prefix-wise), not only at the end.

   Ref(term, t0, m, arr): the trace an observer sees that subscribes `term` at time t0 as subscription number m
   (m selects the instance of probe sources / the script of cold sources: "the k-th subscription behaves
   differently"); arr[i] is the arrival at stimulus i: [s |-> probe id (0 = none), inst, k, v].

   Conventions of the crate that its own asserted tests or the property statements pin down are marked (conv):
     - element_at is 1-based                                          (element_at::basic)
     - take(0) / element_at(0) complete on the first upstream item    (statement of C02 / reading)
     - count of an empty source is 0; other aggregates emit nothing for an empty source
     - contains maps an upstream error to `false`                     (contains::error, asserted)
     - retry(n) = n subscriptions in total, retry(0) = unbounded      (anchors of C04)
     - zip completes when ALL inputs completed                        (reading; zip::basic prints)
     - inputs subscribed at the same instant are served in subscription order: merge/zip/amb/concat in argument
       order, take_until / skip_until / sample: trigger first, switch_on_next: source first
   Everything else is the textbook definition, *not* what the code does: where the code differs TLC reports it. *)
EXTENDS Integers, Sequences, FiniteSets, TLC

TEv(t, k, v) == [t |-> t, k |-> k, v |-> v]
IsT(e) == e.k \in {"e", "c"}
Items(x) == SelectSeq(x, LAMBDA e : e.k = "n")
HasT(x) == x # <<>> /\ IsT(x[Len(x)])
TermOf(x) == x[Len(x)]
WithTerm(items, x) == IF HasT(x) THEN Append(items, TermOf(x)) ELSE items
DoneAt(items, t) == Append(items, TEv(t, "c", 0))
Completed(x) == HasT(x) /\ TermOf(x).k = "c"
Failed(x) == HasT(x) /\ TermOf(x).k = "e"
\* well-formed prefix of an arbitrary event list: cut after the first terminal
RECURSIVE CutWF(_)
CutWF(x) == IF x = <<>> THEN <<>> ELSE IF IsT(Head(x)) THEN <<Head(x)>> ELSE <<Head(x)>> \o CutWF(Tail(x))
WellFormed(x) == \A i \in 1..Len(x) : IsT(x[i]) => i = Len(x)

\* ---------------------------------------------------------------- integer codecs shared with the harness
RObsBase == 100000000
RECURSIVE REncList(_)
REncList(xs) == IF xs = <<>> THEN 1 ELSE REncList(SubSeq(xs, 1, Len(xs) - 1)) * 10 + xs[Len(xs)]
RApplyF(f, p, x) == CASE f = "inc" -> x + p [] f = "mul" -> x * p [] f = "const" -> p [] f = "mod" -> x % p [] OTHER -> x
RApplyP(f, p, x) == CASE f = "lt" -> x < p [] f = "ge" -> x >= p [] f = "even" -> x % 2 = 0 [] f = "true" -> TRUE [] f = "eq" -> x = p
                      [] f = "false" -> FALSE [] OTHER -> FALSE
FirstIdx(xs, P(_)) == IF \E i \in 1..Len(xs) : P(xs[i]) THEN CHOOSE i \in 1..Len(xs) : P(xs[i]) /\ \A k \in 1..(i - 1) : ~P(xs[k]) ELSE 0

\* ---------------------------------------------------------------- single-source operators
RECURSIVE ScanT(_,_,_), DistinctT(_,_,_), SumV(_), MinV(_), MaxV(_), GroupFirst(_,_)
ScanT(xs, has, acc) == IF xs = <<>> THEN <<>> ELSE LET v == IF has THEN acc + Head(xs).v ELSE Head(xs).v IN <<TEv(Head(xs).t, "n", v)>> \o ScanT(Tail(xs), TRUE, v)
DistinctT(xs, has, last) == IF xs = <<>> THEN <<>> ELSE IF has /\ Head(xs).v = last THEN DistinctT(Tail(xs), TRUE, last) ELSE <<Head(xs)>> \o DistinctT(Tail(xs), TRUE, Head(xs).v)
SumV(xs) == IF xs = <<>> THEN 0 ELSE Head(xs).v + SumV(Tail(xs))
MinV(xs) == IF Len(xs) = 1 THEN xs[1].v ELSE LET m == MinV(Tail(xs)) IN IF xs[1].v <= m THEN xs[1].v ELSE m
MaxV(xs) == IF Len(xs) = 1 THEN xs[1].v ELSE LET m == MaxV(Tail(xs)) IN IF xs[1].v >= m THEN xs[1].v ELSE m
GroupFirst(xs, seen) == IF xs = <<>> THEN <<>> ELSE LET k == Head(xs).v % 2 IN
                        IF k \in seen THEN GroupFirst(Tail(xs), seen) ELSE <<TEv(Head(xs).t, "n", RObsBase)>> \o GroupFirst(Tail(xs), seen \cup {k})
\* aggregate: emits v (if has) when the source completes; an error passes, silence stays silence
OnCompl(x, has, v) == IF Completed(x) THEN (IF has THEN <<TEv(TermOf(x).t, "n", v), TermOf(x)>> ELSE <<TermOf(x)>>)
                      ELSE IF Failed(x) THEN <<TermOf(x)>> ELSE <<>>

Single(t, x, t0) ==
  LET it == Items(x)
      n == Len(it)
      a == t.a IN
  CASE t.op \in {"identity", "tap", "defer", "map_to_any"} -> x
    [] t.op = "map" -> [i \in 1..Len(x) |-> IF x[i].k = "n" THEN TEv(x[i].t, "n", RApplyF(t.f, a, x[i].v)) ELSE x[i]]
    [] t.op = "filter" -> SelectSeq(x, LAMBDA e : e.k # "n" \/ RApplyP(t.f, a, e.v))
    [] t.op \in {"take", "first"} ->
         LET c == IF t.op = "first" THEN 1 ELSE a IN
         IF c = 0 THEN (IF x = <<>> THEN <<>> ELSE IF x[1].k = "n" THEN <<TEv(x[1].t, "c", 0)>> ELSE <<x[1]>>)      \* (conv)
         ELSE IF n >= c THEN DoneAt(SubSeq(it, 1, c), it[c].t) ELSE x
    [] t.op = "skip" -> WithTerm(SubSeq(it, a + 1, n), x)
    [] t.op = "skip_last" -> WithTerm([i \in 1..(IF n > a THEN n - a ELSE 0) |-> TEv(it[i + a].t, "n", it[i].v)], x)
    [] t.op = "take_while" -> LET k == FirstIdx(it, LAMBDA e : ~RApplyP(t.f, a, e.v)) IN IF k = 0 THEN x ELSE DoneAt(SubSeq(it, 1, k - 1), it[k].t)
    [] t.op = "skip_while" -> LET k == FirstIdx(it, LAMBDA e : ~RApplyP(t.f, a, e.v)) IN WithTerm(IF k = 0 THEN <<>> ELSE SubSeq(it, k, n), x)
    [] t.op \in {"take_last", "last"} ->
         LET c == IF t.op = "last" THEN 1 ELSE a IN
         IF Completed(x) THEN Append([i \in 1..(IF n > c THEN c ELSE n) |-> TEv(TermOf(x).t, "n", it[(IF n > c THEN n - c ELSE 0) + i].v)], TermOf(x))
         ELSE IF Failed(x) THEN <<TermOf(x)>> ELSE <<>>
    [] t.op = "element_at" ->      \* 1-based (conv); absent => nothing
         IF a = 0 THEN (IF x = <<>> THEN <<>> ELSE IF x[1].k = "n" THEN <<TEv(x[1].t, "c", 0)>> ELSE <<x[1]>>)
         ELSE IF n >= a THEN <<it[a], TEv(it[a].t, "c", 0)>> ELSE WithTerm(<<>>, x)
    [] t.op = "distinct_until_changed" -> WithTerm(DistinctT(it, FALSE, 0), x)
    [] t.op = "scan" -> WithTerm(ScanT(it, FALSE, 0), x)
    [] t.op \in {"reduce", "sum"} -> OnCompl(x, n >= 1, SumV(it))
    [] t.op = "sum_and_count" -> OnCompl(x, n >= 1, SumV(it) * 100 + n)
    [] t.op = "min" -> OnCompl(x, n >= 1, IF n >= 1 THEN MinV(it) ELSE 0)
    [] t.op = "max" -> OnCompl(x, n >= 1, IF n >= 1 THEN MaxV(it) ELSE 0)
    [] t.op = "count" -> OnCompl(x, TRUE, n)
    [] t.op = "all" -> LET k == FirstIdx(it, LAMBDA e : ~RApplyP(t.f, a, e.v)) IN
                       IF k # 0 THEN <<TEv(it[k].t, "n", 0), TEv(it[k].t, "c", 0)>> ELSE OnCompl(x, TRUE, 1)
    [] t.op = "contains" -> LET k == FirstIdx(it, LAMBDA e : e.v = a) IN
                            IF k # 0 THEN <<TEv(it[k].t, "n", 1), TEv(it[k].t, "c", 0)>>
                            ELSE IF HasT(x) THEN <<TEv(TermOf(x).t, "n", 0), TEv(TermOf(x).t, "c", 0)>> ELSE <<>>          \* error -> false (conv)
    [] t.op = "default_if_empty" -> IF Completed(x) /\ n = 0 THEN <<TEv(TermOf(x).t, "n", a), TermOf(x)>> ELSE x
    [] t.op = "ignore_elements" -> WithTerm(<<>>, x)
    [] t.op = "start_with" -> [i \in 1..Len(t.items) |-> TEv(t0, "n", t.items[i])] \o x
    [] t.op = "buffer_with_count" ->
         LET full == n \div a
             chunks == [c \in 1..full |-> TEv(it[c * a].t, "n", REncList([i \in 1..a |-> it[(c - 1) * a + i].v]))]
             rest == [i \in 1..(n - full * a) |-> it[full * a + i].v]
         IN IF Completed(x) /\ rest # <<>> THEN chunks \o <<TEv(TermOf(x).t, "n", REncList(rest)), TermOf(x)>> ELSE WithTerm(chunks, x)
    [] t.op = "materialize" ->
         IF Completed(x) THEN it \o <<TEv(TermOf(x).t, "n", 2000), TermOf(x)>>
         ELSE IF Failed(x) THEN it \o <<TEv(TermOf(x).t, "n", 1000 + TermOf(x).v), TEv(TermOf(x).t, "c", 0)>> ELSE x
    [] t.op = "dematerialize" ->
         LET k == FirstIdx(it, LAMBDA e : e.v >= 1000) IN
         IF k = 0 THEN x ELSE IF it[k].v = 2000 THEN DoneAt(SubSeq(it, 1, k - 1), it[k].t) ELSE Append(SubSeq(it, 1, k - 1), TEv(it[k].t, "e", it[k].v - 1000))
    [] t.op = "window_with_count" ->      \* a new (hot) window is handed out with the items number 1, a+1, 2a+1, ...
         WithTerm(SelectSeq([i \in 1..n |-> IF (i - 1) % a = 0 THEN TEv(it[i].t, "n", RObsBase) ELSE TEv(0, "x", 0)], LAMBDA e : e.k = "n"), x)
    [] t.op = "group_by" -> WithTerm(GroupFirst(it, {}), x)
    [] OTHER -> x

\* ---------------------------------------------------------------- several sources: merge by time, fold
\* tagged event: [s (input index), t, k, v]; inputs subscribed at the same instant are served in index order
RECURSIVE MergeTagged(_)
MergeTagged(xs) ==       \* xs: sequence of timed traces
  LET ne == { i \in 1..Len(xs) : xs[i] # <<>> } IN
  IF ne = {} THEN <<>>
  ELSE LET i == CHOOSE i \in ne : \A j \in ne : xs[i][1].t < xs[j][1].t \/ (xs[i][1].t = xs[j][1].t /\ i <= j)
       IN <<[s |-> i, t |-> xs[i][1].t, k |-> xs[i][1].k, v |-> xs[i][1].v]>> \o MergeTagged([xs EXCEPT ![i] = Tail(@)])
RECURSIVE FoldT(_,_,_)
FoldT(Stepf(_,_), st, a) == IF a = <<>> \/ st.done THEN st ELSE FoldT(Stepf, Stepf(st, Head(a)), Tail(a))
Fin(st, evs) == [st EXCEPT !.out = @ \o evs, !.done = TRUE]
Put(st, evs) == [st EXCEPT !.out = @ \o evs]
St0(n) == [out |-> <<>>, done |-> FALSE, c |-> {}, q |-> [i \in 1..n |-> <<>>], l |-> [i \in 1..n |-> <<>>], w |-> 0, n |-> n]
AllIn(st) == st.c = 1..st.n
Heads(q) == [i \in 1..Len(q) |-> Head(q[i])]
\* merge / flat_map: every item in arrival order; first error terminates; complete after all completed
MergeStep(st, e) == CASE e.k = "n" -> Put(st, <<TEv(e.t, "n", e.v)>>) [] e.k = "e" -> Fin(st, <<TEv(e.t, "e", e.v)>>)
                      [] OTHER -> LET st2 == [st EXCEPT !.c = @ \cup {e.s}] IN IF AllIn(st2) THEN Fin(st2, <<TEv(e.t, "c", 0)>>) ELSE st2
\* zip: i-th tuple from the i-th items; error terminates; completes when all inputs completed (conv)
ZipStep(st, e) ==
  CASE e.k = "n" -> LET q == [st.q EXCEPT ![e.s] = Append(@, e.v)]
                    IN IF \A i \in 1..st.n : q[i] # <<>> THEN [Put(st, <<TEv(e.t, "n", REncList(Heads(q)))>>) EXCEPT !.q = [i \in 1..st.n |-> Tail(q[i])]] ELSE [st EXCEPT !.q = q]
    [] e.k = "e" -> Fin(st, <<TEv(e.t, "e", e.v)>>)
    [] OTHER -> LET st2 == [st EXCEPT !.c = @ \cup {e.s}] IN IF AllIn(st2) THEN Fin(st2, <<TEv(e.t, "c", 0)>>) ELSE st2
\* combine_latest: on each item, once all have emitted, the latest of every source
ClStep(st, e) ==
  CASE e.k = "n" -> LET l == [st.l EXCEPT ![e.s] = <<e.v>>] IN
                    IF \A i \in 1..st.n : l[i] # <<>> THEN [Put(st, <<TEv(e.t, "n", REncList(Heads(l)))>>) EXCEPT !.l = l] ELSE [st EXCEPT !.l = l]
    [] e.k = "e" -> Fin(st, <<TEv(e.t, "e", e.v)>>)
    [] OTHER -> LET st2 == [st EXCEPT !.c = @ \cup {e.s}] IN IF AllIn(st2) THEN Fin(st2, <<TEv(e.t, "c", 0)>>) ELSE st2
\* amb: mirror the first source to signal anything
AmbStep(st, e) == LET w == IF st.w = 0 THEN e.s ELSE st.w IN
  IF e.s # w THEN [st EXCEPT !.w = w]
  ELSE CASE e.k = "n" -> [Put(st, <<TEv(e.t, "n", e.v)>>) EXCEPT !.w = w] [] e.k = "e" -> Fin(st, <<TEv(e.t, "e", e.v)>>) [] OTHER -> Fin(st, <<TEv(e.t, "c", 0)>>)
\* sequence_equal (two sources): false as soon as the sequences are known to differ, true when both completed equal
SeqEqStep(st, e) ==
  LET no(t) == <<TEv(t, "n", 0), TEv(t, "c", 0)>> IN
  CASE e.k = "e" -> Fin(st, <<TEv(e.t, "e", e.v)>>)
    [] e.k = "n" -> LET q == [st.q EXCEPT ![e.s] = Append(@, e.v)]
                        o == 3 - e.s
                        i == Len(q[e.s])
                    IN IF Len(q[o]) >= i /\ q[o][i] # e.v THEN Fin(st, no(e.t))
                       ELSE IF o \in st.c /\ Len(q[o]) < i THEN Fin(st, no(e.t)) ELSE [st EXCEPT !.q = q]
    [] OTHER -> LET st2 == [st EXCEPT !.c = @ \cup {e.s}]
                    o == 3 - e.s
                IN IF Len(st.q[o]) > Len(st.q[e.s]) THEN Fin(st2, no(e.t))
                   ELSE IF AllIn(st2) THEN Fin(st2, <<TEv(e.t, "n", 1), TEv(e.t, "c", 0)>>) ELSE st2
\* take_until / skip_until / sample: input 1 = trigger, input 2 = source (trigger is subscribed first)
Pass(st, e) == CASE e.k = "n" -> Put(st, <<TEv(e.t, "n", e.v)>>) [] e.k = "e" -> Fin(st, <<TEv(e.t, "e", e.v)>>) [] OTHER -> Fin(st, <<TEv(e.t, "c", 0)>>)
TuStep(st, e) == IF e.s = 1 THEN (IF e.k = "n" THEN Fin(st, <<TEv(e.t, "c", 0)>>) ELSE IF e.k = "e" THEN Fin(st, <<TEv(e.t, "e", e.v)>>) ELSE st) ELSE Pass(st, e)
SuStep(st, e) == IF e.s = 1 THEN (IF e.k = "n" THEN [st EXCEPT !.w = 1] ELSE IF e.k = "e" /\ st.w = 0 THEN Fin(st, <<TEv(e.t, "e", e.v)>>) ELSE st)
                 ELSE IF e.k = "n" THEN (IF st.w = 1 THEN Put(st, <<TEv(e.t, "n", e.v)>>) ELSE st) ELSE Pass(st, e)
SaStep(st, e) == IF e.s = 1 THEN (IF e.k = "n" THEN (IF st.l[1] # <<>> THEN [Put(st, <<TEv(e.t, "n", st.l[1][1])>>) EXCEPT !.l[1] = <<>>] ELSE st)
                                  ELSE IF e.k = "e" THEN Fin(st, <<TEv(e.t, "e", e.v)>>) ELSE st)
                 ELSE IF e.k = "n" THEN [st EXCEPT !.l[1] = <<e.v>>] ELSE Pass(st, e)
\* switch_on_next (crate-specific): mirror input 1 until input 2 emits, then input 2; completes with input 2, or when both completed
SwStep(st, e) == IF e.s = 1 THEN (IF st.w = 2 THEN st ELSE CASE e.k = "n" -> Put(st, <<TEv(e.t, "n", e.v)>>) [] e.k = "e" -> Fin(st, <<TEv(e.t, "e", e.v)>>)
                                                            [] OTHER -> LET st2 == [st EXCEPT !.c = @ \cup {1}] IN IF 2 \in st2.c THEN Fin(st2, <<TEv(e.t, "c", 0)>>) ELSE st2)
                 ELSE CASE e.k = "n" -> [Put(st, <<TEv(e.t, "n", e.v)>>) EXCEPT !.w = 2] [] e.k = "e" -> Fin(st, <<TEv(e.t, "e", e.v)>>) [] OTHER -> Fin(st, <<TEv(e.t, "c", 0)>>)

\* ---------------------------------------------------------------- the evaluator
RLeaf(op, a) == [op |-> op, a |-> a, b |-> 0, f |-> "", id |-> 0, in |-> <<>>, items |-> <<>>, scripts |-> <<>>]
MaxAttempts == 7
RepeatLen == 9
RECURSIVE Ref(_,_,_,_), RefConcat(_,_,_,_,_), RefRetry(_,_,_,_,_), RefInners(_,_,_,_,_)
\* the harness's PLAIN Subject j as a hot source: the "subj" stimuli carry the source id SubjBase + j and no instance number - a
\* subscription made at t0 sees every later event up to (and including) the first terminal; a plain Subject keeps no memory of a
\* terminal, so a later subscription (retry's next attempt) simply sees what follows
SubjBase == 100
SubjTrace(j, t0, arr) ==
  CutWF(SelectSeq([x \in 1..Len(arr) |-> IF x > t0 /\ arr[x].s = SubjBase + j THEN TEv(x, arr[x].k, arr[x].v) ELSE TEv(0, "x", 0)], LAMBDA e : e.k # "x"))
\* the harness's ReplaySubject j (leaf "replaysubject", see Retag): a subscription made at t0 is first handed, at t0, everything the
\* subject was handed before (items, then the stored terminal), then sees what follows - up to the first terminal
ReplayTrace(j, t0, arr) ==
  CutWF(SelectSeq([x \in 1..Len(arr) |-> IF arr[x].s = SubjBase + j THEN TEv(IF x > t0 THEN x ELSE t0, arr[x].k, arr[x].v) ELSE TEv(0, "x", 0)], LAMBDA e : e.k # "x"))
ProbeTrace(i, m, t0, arr) ==
  CutWF(SelectSeq([x \in 1..Len(arr) |-> IF x > t0 /\ arr[x].s = i /\ arr[x].inst = m THEN TEv(x, arr[x].k, arr[x].v) ELSE TEv(0, "x", 0)], LAMBDA e : e.k # "x"))
RefConcat(ins, i, t0, m, arr) ==       \* strictly one after another; the next is subscribed when the previous completed
  LET x == Ref(ins[i], t0, m, arr) IN
  IF i = Len(ins) \/ ~Completed(x) THEN x ELSE Items(x) \o RefConcat(ins, i + 1, TermOf(x).t, m, arr)
RefRetry(t, attempt, t0, arr, m) ==  \* attempt-th subscription of the input (instance m + attempt - 1); gives up ("div") after MaxAttempts
  LET x == Ref(t.in[1], t0, m + attempt - 1, arr)
      again == Failed(x) /\ (IF t.op = "retry" THEN (t.a = 0 \/ attempt < t.a)
                             ELSE CASE t.f = "always" -> TRUE [] t.f = "never" -> FALSE [] t.f = "payload" -> TermOf(x).v = t.a [] OTHER -> FALSE)
  IN IF ~again THEN x ELSE IF attempt >= MaxAttempts THEN Append(Items(x), TEv(TermOf(x).t, "div", 0))
     ELSE Items(x) \o RefRetry(t, attempt + 1, TermOf(x).t, arr, m)
FlatInner(f, v, k) == CASE f = "just" -> RLeaf("just", v)
                        [] f = "pair" -> [RLeaf("from_iter", 0) EXCEPT !.items = <<v, v + 1>>]
                        [] f = "err1" -> IF v = 1 THEN RLeaf("error", 8) ELSE RLeaf("just", v)
                        [] f = "probe2" -> RLeaf("probe", 2)
                        [] f = "probe2map" -> [RLeaf("map", 0) EXCEPT !.f = "inc", !.in = <<RLeaf("probe", 2)>>]
                        [] OTHER -> RLeaf("empty", 0)
RefInners(f, its, k, arr, acc) ==      \* the k-th outer item subscribes its inner observable at that item's time, as instance k
  IF k > Len(its) THEN acc ELSE RefInners(f, its, k + 1, arr, Append(acc, Ref(FlatInner(f, its[k].v, k), its[k].t, k, arr)))
Ref(t, t0, m, arr) ==
  CASE t.op = "probe" -> ProbeTrace(t.a, m, t0, arr)
    [] t.op = "subject" -> SubjTrace(t.a, t0, arr)
    [] t.op = "replaysubject" -> ReplayTrace(t.a, t0, arr)
    [] t.op = "cold" -> LET sc == t.scripts[IF m < Len(t.scripts) THEN m ELSE Len(t.scripts)] IN [i \in 1..Len(sc) |-> TEv(t0, sc[i].k, sc[i].v)]
    [] t.op = "from_iter" -> DoneAt([i \in 1..Len(t.items) |-> TEv(t0, "n", t.items[i])], t0)
    [] t.op \in {"just", "start"} -> <<TEv(t0, "n", t.a), TEv(t0, "c", 0)>>
    [] t.op = "from_result" -> IF t.b = 0 THEN <<TEv(t0, "n", t.a), TEv(t0, "c", 0)>> ELSE <<TEv(t0, "e", t.a)>>
    [] t.op = "empty" -> <<TEv(t0, "c", 0)>>
    [] t.op = "never" -> <<>>
    [] t.op = "error" -> <<TEv(t0, "e", t.a)>>
    [] t.op = "range" -> DoneAt([i \in 1..t.b |-> TEv(t0, "n", t.a + i - 1)], t0)
    [] t.op = "from_iter_endless" -> Append([i \in 1..RepeatLen |-> TEv(t0, "n", t.a)], TEv(t0, "div", 0))
    [] t.op = "repeat" -> Append([i \in 1..RepeatLen |-> TEv(t0, "n", t.a)], TEv(t0, "div", 0))   \* endless: only meaningful under a terminating operator
    [] t.op \in {"merge", "zip", "combine_latest", "amb", "sequence_equal"} ->
         LET xs == [i \in 1..Len(t.in) |-> Ref(t.in[i], t0, m, arr)]
             a == MergeTagged(xs)
             n == Len(t.in)
         IN CASE t.op = "merge" -> FoldT(MergeStep, St0(n), a).out [] t.op = "zip" -> FoldT(ZipStep, St0(n), a).out
              [] t.op = "combine_latest" -> FoldT(ClStep, St0(n), a).out [] t.op = "amb" -> FoldT(AmbStep, St0(n), a).out
              [] OTHER -> FoldT(SeqEqStep, St0(n), a).out
    [] t.op \in {"take_until", "skip_until", "sample"} ->      \* in[1] = source, in[2] = trigger; fold sees trigger as input 1
         LET a == MergeTagged(<<Ref(t.in[2], t0, m, arr), Ref(t.in[1], t0, m, arr)>>)
         IN CASE t.op = "take_until" -> FoldT(TuStep, St0(2), a).out [] t.op = "skip_until" -> FoldT(SuStep, St0(2), a).out [] OTHER -> FoldT(SaStep, St0(2), a).out
    [] t.op = "switch_on_next" -> FoldT(SwStep, St0(2), MergeTagged(<<Ref(t.in[1], t0, m, arr), Ref(t.in[2], t0, m, arr)>>)).out
    [] t.op = "concat" -> RefConcat(t.in, 1, t0, m, arr)
    [] t.op \in {"retry", "retry_when"} -> RefRetry(t, 1, t0, arr, m)
    [] t.op = "on_error_resume_next" ->
         LET x == Ref(t.in[1], t0, m, arr) IN
         IF ~Failed(x) THEN x
         ELSE LET e == TermOf(x)
                  nxt == CASE t.f = "just" -> RLeaf("just", 9) [] t.f = "empty" -> RLeaf("empty", 0) [] t.f = "error" -> RLeaf("error", e.v + 1) [] OTHER -> RLeaf("probe", 2)
              IN Items(x) \o Ref(nxt, e.t, 1, arr)
    [] t.op = "flat_map" ->
         IF t.f = "obs" THEN Ref(t.in[1].in[1], t0, m, arr)          \* flattening the windows / groups gives the source back
         ELSE IF t.f = "obsmat" THEN
           \* flat_map(w => w.materialize()) over window_with_count(a): the source's items, a Complete notification (2000) right
           \* after every a-th item (the window is full), and at the source's terminal the open window's own terminal
           \* notification (Complete, or Error = 1000 + payload) - then the source's terminal
           LET x == Ref(t.in[1].in[1], t0, m, arr)
               it == Items(x)
               a == t.in[1].a
               RECURSIVE WinSeq(_)
               WinSeq(i) == IF i > Len(it) THEN <<>> ELSE <<it[i]>> \o (IF i % a = 0 THEN <<TEv(it[i].t, "n", 2000)>> ELSE <<>>) \o WinSeq(i + 1)
               open == Len(it) % a # 0
           IN IF Completed(x) THEN WinSeq(1) \o (IF open THEN <<TEv(TermOf(x).t, "n", 2000)>> ELSE <<>>) \o <<TermOf(x)>>
              ELSE IF Failed(x) THEN WinSeq(1) \o (IF open THEN <<TEv(TermOf(x).t, "n", 1000 + TermOf(x).v)>> ELSE <<>>) \o <<TermOf(x)>>
              ELSE WinSeq(1)
         ELSE LET x == Ref(t.in[1], t0, m, arr)
                  inners == RefInners(t.f, Items(x), 1, arr, <<>>)
                  \* the outer source takes part in the merge with its terminal only
                  a == MergeTagged(inners \o <<WithTerm(<<>>, x)>>)      \* (same instant: inner events precede the outer terminal)
              IN FoldT(MergeStep, St0(Len(inners) + 1), a).out
    [] OTHER -> Single(t, Ref(t.in[1], t0, m, arr), t0)

\* ---------------------------------------------------------------- domain of the definition
\* Ref is claimed only where the instance numbering it assumes is the real one: every probe / cold id occurs once,
\* at most one resubscribing operator above a leaf, no subject / connectable sources (C10 / C13 own those).
RECURSIVE LeafIds(_), NoSubj(_,_), ResubDepth(_), AnyProbe2(_), ResubLeavesOK(_), NSubj(_), Retag(_)
\* the kind of the harness subject is part of the case's configuration, not of the term: for a ReplaySubject the leaf is renamed
Retag(t) == IF t.op = "subject" THEN [t EXCEPT !.op = "replaysubject"] ELSE [t EXCEPT !.in = [i \in 1..Len(t.in) |-> Retag(t.in[i])]]
LeafIds(t) == IF t.op \in {"probe", "cold"} THEN <<t.a>> ELSE IF t.in = <<>> THEN <<>> ELSE
              LET RECURSIVE Cat(_) Cat(i) == IF i > Len(t.in) THEN <<>> ELSE LeafIds(t.in[i]) \o Cat(i + 1) IN Cat(1)
Resubscriber(t) == t.op \in {"retry", "retry_when"} \/ (t.op = "flat_map" /\ t.f \in {"probe2", "probe2map"}) \/ (t.op = "on_error_resume_next" /\ t.f = "probe2")
UsesProbe2(t) == (t.op = "flat_map" /\ t.f \in {"probe2", "probe2map"}) \/ (t.op = "on_error_resume_next" /\ t.f = "probe2")
\* (switch_on_next is specific to this crate and no listed property defines it: it is exercised by C01/C05/C06/C07/C17 only)
\* (plain = the harness subject is a plain Subject: it is then a hot source like a probe; Behavior / Replay / AsyncSubject are C10's)
NoSubj(t, plain) == t.op \notin {"rawsubject", "conn", "ready_set_go", "switch_on_next"} /\ (t.op = "subject" => plain) /\ ~(t.op = "flat_map" /\ t.f = "unsub_probe2")
             /\ (t.op = "flat_map" /\ t.f = "obsmat" => t.in[1].op = "window_with_count") /\ \A i \in 1..Len(t.in) : NoSubj(t.in[i], plain)
NSubj(t) == (IF t.op \in {"subject", "replaysubject"} THEN 1 ELSE 0) + (IF t.in = <<>> THEN 0 ELSE LET RECURSIVE Sum(_) Sum(i) == IF i > Len(t.in) THEN 0 ELSE NSubj(t.in[i]) + Sum(i + 1) IN Sum(1))
ResubDepth(t) == LET d == IF t.in = <<>> THEN 0 ELSE LET S == { ResubDepth(t.in[i]) : i \in 1..Len(t.in) } IN CHOOSE x \in S : \A y \in S : y <= x
                 IN d + (IF Resubscriber(t) THEN 1 ELSE 0)
AnyProbe2(t) == UsesProbe2(t) \/ \E i \in 1..Len(t.in) : AnyProbe2(t.in[i])
\* retry / retry_when re-subscribe their whole input: with two leaves below, the second one may not have been subscribed in
\* an attempt that failed while the first was being subscribed, so "attempt k = instance k of every leaf" holds for one leaf only
ResubLeavesOK(t) == (t.op \in {"retry", "retry_when"} => Len(LeafIds(t)) <= 1) /\ \A i \in 1..Len(t.in) : ResubLeavesOK(t.in[i])
RefDomain(t, plain) ==
  LET ids == LeafIds(t) IN
  /\ NoSubj(t, plain)
  /\ NSubj(t) <= 1          \* (one stimulus reaching two inputs of one operator: the order among them is the subject's table order)
  /\ \A i, j \in 1..Len(ids) : i # j => ids[i] # ids[j]
  /\ (AnyProbe2(t) => \A i \in 1..Len(ids) : ids[i] # 2)
  /\ ResubDepth(t) <= 1
  /\ ResubLeavesOK(t)
Diverged(x) == \E i \in 1..Len(x) : x[i].k = "div"
=============================================================================
