------------------------------ MODULE SampleConc ------------------------------
(* L1 (lock-operation level) design model of operators/sample.rs with the source and the trigger on different threads
   (C16 "sample ... only ever deliver items the source emitted, in source order, none twice"; C03 "sample gate[s] the source by the
   trigger's items"; C11 for the cross-thread use):

     source thread    next(x):   value.write(): *v = Some(x); release                      (nothing is handed on)
                      complete:  sink_complete_force()    -- closes the stream, the trigger's observer is unsubscribed too
     trigger thread   next(_):   value.write(): vv = v.clone(); *v = None; release; if Some(vv): sink_next(vv)   -- NO lock held
                                                                                                 while the item is handed on

   The sink itself (one slot, closed once) is SinkConc's business; here it is one atomic step.  The source pushes the items
   1..NItems, the trigger fires NTicks times.  Invariants:

     OnlyEmitted, InOrderNoneTwice   the C16 clause
     FreshIsInSlot                   whenever nobody holds the lock the slot holds exactly the newest item if it has not been handed
                                     on yet, and nothing otherwise: a tick hands on the latest item at most once and never an older one
     NothingAfterComplete            nothing reaches the subscriber after the source's completion did

   Two mistakes are named by constants (each makes TLC report a violation, see ./check --selftest):
     ReadNotTake = TRUE   the tick clones the slot but does not empty it: the same item is delivered by two ticks
     TwoStepTake = TRUE   the tick reads under one lock acquisition and empties under a second one ("use a read lock for the
                          read"): an item stored in between is wiped without ever being delivered and FreshIsInSlot fails *)
EXTENDS Integers, Sequences, FiniteSets, TLC
CONSTANTS NItems, NTicks, Completes, ReadNotTake, TwoStepTake
(* --algorithm SampleConc {
variables
  slot = 0,            \* 0 = None, else Some(item)
  lock = 0,            \* holder of the slot's write lock (0 = free); 1 = source thread, 2 = trigger thread
  stored = 0,          \* newest item the source stored
  lastTaken = 0,       \* newest item a tick took out of the slot
  closed = FALSE,
  out = <<>>;          \* what the subscriber received: items, then possibly C (= -1, the completion)
define {
  C == -1
  Items == SelectSeq(out, LAMBDA e : e # C)
  OnlyEmitted == \A i \in 1..Len(Items) : Items[i] \in 1..stored
  InOrderNoneTwice == \A i, j \in 1..Len(Items) : i < j => Items[i] < Items[j]
  FreshIsInSlot == lock = 0 => slot = (IF stored > lastTaken THEN stored ELSE 0)
  NothingAfterComplete == \A i \in 1..Len(out) : out[i] = C => i = Len(out)
}
fair process (source = 1)
variables n = 1;
{
s_loop:  while (n <= NItems) {
s_w:       await lock = 0; lock := 1;                     \* value.write()
           slot := n; stored := n;
s_rel:     lock := 0;
           n := n + 1;
         };
s_end:   if (Completes /\ ~closed) { closed := TRUE; out := Append(out, C) }      \* sink_complete_force()
}
fair process (trigger = 2)
variables k = 1, v = 0;
{
t_loop:  while (k <= NTicks) {
t_w:       await lock = 0; lock := 2;                     \* value.write()  (TwoStepTake: value.read())
           v := slot;
           if (~TwoStepTake) {
             slot := IF ReadNotTake THEN slot ELSE 0;
             lastTaken := IF v # 0 THEN v ELSE lastTaken;
           };
t_rel:     lock := 0;
t_w2:      if (TwoStepTake) {
             await lock = 0; lock := 2;
             slot := 0; lastTaken := IF v # 0 THEN v ELSE lastTaken;
t_rel2:      lock := 0;
           };
t_emit:    if (v # 0 /\ ~closed) { out := Append(out, v) };       \* sink_next(vv): no lock held
           k := k + 1;
         }
}
} *)
\* BEGIN TRANSLATION (chksum(pcal) = "88732d6a" /\ chksum(tla) = "b0bdce9b")
VARIABLES pc, slot, lock, stored, lastTaken, closed, out

(* define statement *)
C == -1
Items == SelectSeq(out, LAMBDA e : e # C)
OnlyEmitted == \A i \in 1..Len(Items) : Items[i] \in 1..stored
InOrderNoneTwice == \A i, j \in 1..Len(Items) : i < j => Items[i] < Items[j]
FreshIsInSlot == lock = 0 => slot = (IF stored > lastTaken THEN stored ELSE 0)
NothingAfterComplete == \A i \in 1..Len(out) : out[i] = C => i = Len(out)

VARIABLES n, k, v

vars == << pc, slot, lock, stored, lastTaken, closed, out, n, k, v >>

ProcSet == {1} \cup {2}

Init == (* Global variables *)
        /\ slot = 0
        /\ lock = 0
        /\ stored = 0
        /\ lastTaken = 0
        /\ closed = FALSE
        /\ out = <<>>
        (* Process source *)
        /\ n = 1
        (* Process trigger *)
        /\ k = 1
        /\ v = 0
        /\ pc = [self \in ProcSet |-> CASE self = 1 -> "s_loop"
                                        [] self = 2 -> "t_loop"]

s_loop == /\ pc[1] = "s_loop"
          /\ IF n <= NItems
                THEN /\ pc' = [pc EXCEPT ![1] = "s_w"]
                ELSE /\ pc' = [pc EXCEPT ![1] = "s_end"]
          /\ UNCHANGED << slot, lock, stored, lastTaken, closed, out, n, k, v >>

s_w == /\ pc[1] = "s_w"
       /\ lock = 0
       /\ lock' = 1
       /\ slot' = n
       /\ stored' = n
       /\ pc' = [pc EXCEPT ![1] = "s_rel"]
       /\ UNCHANGED << lastTaken, closed, out, n, k, v >>

s_rel == /\ pc[1] = "s_rel"
         /\ lock' = 0
         /\ n' = n + 1
         /\ pc' = [pc EXCEPT ![1] = "s_loop"]
         /\ UNCHANGED << slot, stored, lastTaken, closed, out, k, v >>

s_end == /\ pc[1] = "s_end"
         /\ IF Completes /\ ~closed
               THEN /\ closed' = TRUE
                    /\ out' = Append(out, C)
               ELSE /\ TRUE
                    /\ UNCHANGED << closed, out >>
         /\ pc' = [pc EXCEPT ![1] = "Done"]
         /\ UNCHANGED << slot, lock, stored, lastTaken, n, k, v >>

source == s_loop \/ s_w \/ s_rel \/ s_end

t_loop == /\ pc[2] = "t_loop"
          /\ IF k <= NTicks
                THEN /\ pc' = [pc EXCEPT ![2] = "t_w"]
                ELSE /\ pc' = [pc EXCEPT ![2] = "Done"]
          /\ UNCHANGED << slot, lock, stored, lastTaken, closed, out, n, k, v >>

t_w == /\ pc[2] = "t_w"
       /\ lock = 0
       /\ lock' = 2
       /\ v' = slot
       /\ IF ~TwoStepTake
             THEN /\ slot' = IF ReadNotTake THEN slot ELSE 0
                  /\ lastTaken' = (IF v' # 0 THEN v' ELSE lastTaken)
             ELSE /\ TRUE
                  /\ UNCHANGED << slot, lastTaken >>
       /\ pc' = [pc EXCEPT ![2] = "t_rel"]
       /\ UNCHANGED << stored, closed, out, n, k >>

t_rel == /\ pc[2] = "t_rel"
         /\ lock' = 0
         /\ pc' = [pc EXCEPT ![2] = "t_w2"]
         /\ UNCHANGED << slot, stored, lastTaken, closed, out, n, k, v >>

t_w2 == /\ pc[2] = "t_w2"
        /\ IF TwoStepTake
              THEN /\ lock = 0
                   /\ lock' = 2
                   /\ slot' = 0
                   /\ lastTaken' = (IF v # 0 THEN v ELSE lastTaken)
                   /\ pc' = [pc EXCEPT ![2] = "t_rel2"]
              ELSE /\ pc' = [pc EXCEPT ![2] = "t_emit"]
                   /\ UNCHANGED << slot, lock, lastTaken >>
        /\ UNCHANGED << stored, closed, out, n, k, v >>

t_rel2 == /\ pc[2] = "t_rel2"
          /\ lock' = 0
          /\ pc' = [pc EXCEPT ![2] = "t_emit"]
          /\ UNCHANGED << slot, stored, lastTaken, closed, out, n, k, v >>

t_emit == /\ pc[2] = "t_emit"
          /\ IF v # 0 /\ ~closed
                THEN /\ out' = Append(out, v)
                ELSE /\ TRUE
                     /\ out' = out
          /\ k' = k + 1
          /\ pc' = [pc EXCEPT ![2] = "t_loop"]
          /\ UNCHANGED << slot, lock, stored, lastTaken, closed, n, v >>

trigger == t_loop \/ t_w \/ t_rel \/ t_w2 \/ t_rel2 \/ t_emit

(* Allow infinite stuttering to prevent deadlock on termination. *)
Terminating == /\ \A self \in ProcSet: pc[self] = "Done"
               /\ UNCHANGED vars

Next == source \/ trigger
           \/ Terminating

Spec == /\ Init /\ [][Next]_vars
        /\ WF_vars(source)
        /\ WF_vars(trigger)

Termination == <>(\A self \in ProcSet: pc[self] = "Done")

\* END TRANSLATION 
=============================================================================
