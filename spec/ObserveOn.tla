----------------------------- MODULE ObserveOn -----------------------------
(* L1 design model of operators/observe_on.rs on a new-thread scheduler (C09, and the observe_on clause of C15):

     emitter thread     for every source event: the operator's upstream observer (live as long as `up`) POSTS a closure to the
                        scheduler queue: next -> sink_next(x), error -> sink_error(e), complete -> sink_complete
     worker thread      AsyncFunctionQueue::scheduling: wait until the queue is non-empty or aborted; aborted -> exit; else pop
                        the oldest closure and run it:
                          sink_next      is_subscribed() ? deliver : finalize()
                          sink_error / sink_complete     is_subscribed() ? deliver the terminal, then finalize() : finalize()
     unsubscriber       Observer::unsubscribe(): the subscriber's slots are cleared (`sub` = FALSE), its hook runs finalize()
     finalize()         unsubscribe the upstream observer (`up` = FALSE), then on_finalize: scheduler.abort() = set the abort flag,
                        clear the queue, wake the worker

   The source script is chosen initially: NItems items, then a terminal or nothing (Ending).  WithUnsub adds the unsubscriber.
   ErrorDirect = TRUE models the seeded mistake "the error is delivered on the emitting thread instead of being posted"
   (seeds C04r4-b / C01r5-a): TLC then shows the error overtaking queued items.
   Feedback = TRUE adds a feedback consumer: the subscriber's callback for item 1 pushes one more item (FB) into the source, i.e. the
   WORKER posts a closure; it takes its turn in the queue.  InlineFromWorker = TRUE is the seeded mistake C09r12-a ("already on
   the scheduler's thread: run the closure at once"): TLC then shows a callback running inside another one. *)
EXTENDS Integers, Sequences, FiniteSets, TLC
CONSTANTS NItems, Ending, WithUnsub, ErrorDirect,     \* Ending \in {"c", "e", "none"}
          Feedback, InlineFromWorker
(* --algorithm ObserveOn {
variables
  queue = <<>>,            \* posted closures: <<kind, value>>
  aborted = FALSE,
  up = TRUE,               \* the operator's upstream observer is still subscribed
  sub = TRUE,              \* the downstream subscriber is still subscribed
  delivered = <<>>,        \* what the subscriber's callbacks saw, with the thread that ran them
  emitted = <<>>,          \* what the source emitted while `up` (in order)
  unsubReturned = FALSE, postedAfterUnsub = {},
  workerDone = FALSE,
  nested = FALSE;          \* some callback ran while another one had not returned
define {
  FB == 100
  Script == [i \in 1..NItems |-> <<"n", i>>] \o (IF Ending = "none" THEN <<>> ELSE << <<Ending, 0>> >>)
  Kinds(s) == [i \in 1..Len(s) |-> <<s[i][1], s[i][2]>>]
  IsPrefix(a, b) == Len(a) <= Len(b) /\ \A i \in 1..Len(a) : a[i] = b[i]
  \* C09: source order, nothing invented, terminal last, all on the worker thread
  Own(s) == SelectSeq(s, LAMBDA e : e[2] # FB)
  OrderOK == IsPrefix(Own(Kinds(delivered)), Script)
  NeverNested == ~nested                                   \* C09: never two callbacks at once
  FedBackAtMostOnce == Len(SelectSeq(delivered, LAMBDA e : e[2] = FB)) <= 1
  OnWorker == \A i \in 1..Len(delivered) : delivered[i][3] = "worker"
  TerminalLast == \A i \in 1..Len(delivered) : delivered[i][1] \in {"c", "e"} => i = Len(delivered)
  \* nothing lost: without an unsubscriber, once everything is quiet the subscriber has the whole script
  AllDone == pc["emitter"] = "Done" /\ pc["worker"] = "Done" /\ pc["unsub"] = "Done"
  NothingLost == (AllDone /\ ~WithUnsub /\ Ending # "none") => Own(Kinds(delivered)) = Script
  \* C05 / C09: nothing whose emission started after unsubscribe() returned is delivered
  NothingAfterUnsub == \A i \in 1..Len(delivered) : <<delivered[i][1], delivered[i][2]>> \notin postedAfterUnsub
  \* C15: the worker exits once the subscription ended (terminal or unsubscribe)
  WorkerExits == ((Ending # "none") \/ WithUnsub) ~> workerDone
}
macro finalize() { up := FALSE; aborted := TRUE; queue := <<>> }
fair process (emitter \in {"emitter"})
variables k = 1;
{
e_loop: while (k <= Len(Script)) {
e_post:   if (up) {                                              \* Observer::next/error/complete of the upstream observer
            emitted := Append(emitted, Script[k]);
            if (unsubReturned) { postedAfterUnsub := postedAfterUnsub \cup {Script[k]} };
            if (Script[k][1] = "e" /\ ErrorDirect) {
e_direct:     if (sub) { delivered := Append(delivered, <<"e", 0, "emitter">>); sub := FALSE };
              finalize();
            } else {
              queue := Append(queue, Script[k]);                 \* scheduler.post(closure): lock, push, notify
            }
          };
e_next:   k := k + 1;
        }
}
fair process (worker \in {"worker"})
variables task = <<>>;
{
w_wait: await queue # <<>> \/ aborted;                           \* cond.wait_while(queue empty && !abort)
        if (aborted) { goto w_exit } else { task := Head(queue); queue := Tail(queue) };
w_run:  if (task[1] = "n") {
          if (sub) {
            delivered := Append(delivered, <<"n", task[2], "worker">>);
            if (Feedback /\ task[2] = 1 /\ up) {                 \* the callback calls next(FB) on the source: the worker posts
              if (InlineFromWorker) {
w_inl:          if (sub) { delivered := Append(delivered, <<"n", FB, "worker">>); nested := TRUE }     \* ... still inside the callback for item 1
              } else {
                queue := Append(queue, <<"n", FB>>)
              }
            }
          } else { finalize() }
        } else {
          if (sub) { delivered := Append(delivered, <<task[1], 0, "worker">>); sub := FALSE };
w_fin:    finalize();
        };
w_back: goto w_wait;
w_exit: workerDone := TRUE;
}
fair process (unsub \in {"unsub"})
{
u_go:   if (WithUnsub) {
u_clear:  sub := FALSE;                                          \* Observer::unsubscribe clears the slots ...
u_fin:    finalize();                                            \* ... and its hook finalizes the controller
u_ret:    unsubReturned := TRUE;
        }
}
} *)
\* BEGIN TRANSLATION (chksum(pcal) = "d58469f3" /\ chksum(tla) = "7dfe0c0e")
VARIABLES pc, queue, aborted, up, sub, delivered, emitted, unsubReturned, 
          postedAfterUnsub, workerDone, nested

(* define statement *)
FB == 100
Script == [i \in 1..NItems |-> <<"n", i>>] \o (IF Ending = "none" THEN <<>> ELSE << <<Ending, 0>> >>)
Kinds(s) == [i \in 1..Len(s) |-> <<s[i][1], s[i][2]>>]
IsPrefix(a, b) == Len(a) <= Len(b) /\ \A i \in 1..Len(a) : a[i] = b[i]

Own(s) == SelectSeq(s, LAMBDA e : e[2] # FB)
OrderOK == IsPrefix(Own(Kinds(delivered)), Script)
NeverNested == ~nested
FedBackAtMostOnce == Len(SelectSeq(delivered, LAMBDA e : e[2] = FB)) <= 1
OnWorker == \A i \in 1..Len(delivered) : delivered[i][3] = "worker"
TerminalLast == \A i \in 1..Len(delivered) : delivered[i][1] \in {"c", "e"} => i = Len(delivered)

AllDone == pc["emitter"] = "Done" /\ pc["worker"] = "Done" /\ pc["unsub"] = "Done"
NothingLost == (AllDone /\ ~WithUnsub /\ Ending # "none") => Own(Kinds(delivered)) = Script

NothingAfterUnsub == \A i \in 1..Len(delivered) : <<delivered[i][1], delivered[i][2]>> \notin postedAfterUnsub

WorkerExits == ((Ending # "none") \/ WithUnsub) ~> workerDone

VARIABLES k, task

vars == << pc, queue, aborted, up, sub, delivered, emitted, unsubReturned, 
           postedAfterUnsub, workerDone, nested, k, task >>

ProcSet == ({"emitter"}) \cup ({"worker"}) \cup ({"unsub"})

Init == (* Global variables *)
        /\ queue = <<>>
        /\ aborted = FALSE
        /\ up = TRUE
        /\ sub = TRUE
        /\ delivered = <<>>
        /\ emitted = <<>>
        /\ unsubReturned = FALSE
        /\ postedAfterUnsub = {}
        /\ workerDone = FALSE
        /\ nested = FALSE
        (* Process emitter *)
        /\ k = [self \in {"emitter"} |-> 1]
        (* Process worker *)
        /\ task = [self \in {"worker"} |-> <<>>]
        /\ pc = [self \in ProcSet |-> CASE self \in {"emitter"} -> "e_loop"
                                        [] self \in {"worker"} -> "w_wait"
                                        [] self \in {"unsub"} -> "u_go"]

e_loop(self) == /\ pc[self] = "e_loop"
                /\ IF k[self] <= Len(Script)
                      THEN /\ pc' = [pc EXCEPT ![self] = "e_post"]
                      ELSE /\ pc' = [pc EXCEPT ![self] = "Done"]
                /\ UNCHANGED << queue, aborted, up, sub, delivered, emitted, 
                                unsubReturned, postedAfterUnsub, workerDone, 
                                nested, k, task >>

e_post(self) == /\ pc[self] = "e_post"
                /\ IF up
                      THEN /\ emitted' = Append(emitted, Script[k[self]])
                           /\ IF unsubReturned
                                 THEN /\ postedAfterUnsub' = (postedAfterUnsub \cup {Script[k[self]]})
                                 ELSE /\ TRUE
                                      /\ UNCHANGED postedAfterUnsub
                           /\ IF Script[k[self]][1] = "e" /\ ErrorDirect
                                 THEN /\ pc' = [pc EXCEPT ![self] = "e_direct"]
                                      /\ queue' = queue
                                 ELSE /\ queue' = Append(queue, Script[k[self]])
                                      /\ pc' = [pc EXCEPT ![self] = "e_next"]
                      ELSE /\ pc' = [pc EXCEPT ![self] = "e_next"]
                           /\ UNCHANGED << queue, emitted, postedAfterUnsub >>
                /\ UNCHANGED << aborted, up, sub, delivered, unsubReturned, 
                                workerDone, nested, k, task >>

e_direct(self) == /\ pc[self] = "e_direct"
                  /\ IF sub
                        THEN /\ delivered' = Append(delivered, <<"e", 0, "emitter">>)
                             /\ sub' = FALSE
                        ELSE /\ TRUE
                             /\ UNCHANGED << sub, delivered >>
                  /\ up' = FALSE
                  /\ aborted' = TRUE
                  /\ queue' = <<>>
                  /\ pc' = [pc EXCEPT ![self] = "e_next"]
                  /\ UNCHANGED << emitted, unsubReturned, postedAfterUnsub, 
                                  workerDone, nested, k, task >>

e_next(self) == /\ pc[self] = "e_next"
                /\ k' = [k EXCEPT ![self] = k[self] + 1]
                /\ pc' = [pc EXCEPT ![self] = "e_loop"]
                /\ UNCHANGED << queue, aborted, up, sub, delivered, emitted, 
                                unsubReturned, postedAfterUnsub, workerDone, 
                                nested, task >>

emitter(self) == e_loop(self) \/ e_post(self) \/ e_direct(self)
                    \/ e_next(self)

w_wait(self) == /\ pc[self] = "w_wait"
                /\ queue # <<>> \/ aborted
                /\ IF aborted
                      THEN /\ pc' = [pc EXCEPT ![self] = "w_exit"]
                           /\ UNCHANGED << queue, task >>
                      ELSE /\ task' = [task EXCEPT ![self] = Head(queue)]
                           /\ queue' = Tail(queue)
                           /\ pc' = [pc EXCEPT ![self] = "w_run"]
                /\ UNCHANGED << aborted, up, sub, delivered, emitted, 
                                unsubReturned, postedAfterUnsub, workerDone, 
                                nested, k >>

w_run(self) == /\ pc[self] = "w_run"
               /\ IF task[self][1] = "n"
                     THEN /\ IF sub
                                THEN /\ delivered' = Append(delivered, <<"n", task[self][2], "worker">>)
                                     /\ IF Feedback /\ task[self][2] = 1 /\ up
                                           THEN /\ IF InlineFromWorker
                                                      THEN /\ pc' = [pc EXCEPT ![self] = "w_inl"]
                                                           /\ queue' = queue
                                                      ELSE /\ queue' = Append(queue, <<"n", FB>>)
                                                           /\ pc' = [pc EXCEPT ![self] = "w_back"]
                                           ELSE /\ pc' = [pc EXCEPT ![self] = "w_back"]
                                                /\ queue' = queue
                                     /\ UNCHANGED << aborted, up >>
                                ELSE /\ up' = FALSE
                                     /\ aborted' = TRUE
                                     /\ queue' = <<>>
                                     /\ pc' = [pc EXCEPT ![self] = "w_back"]
                                     /\ UNCHANGED delivered
                          /\ sub' = sub
                     ELSE /\ IF sub
                                THEN /\ delivered' = Append(delivered, <<task[self][1], 0, "worker">>)
                                     /\ sub' = FALSE
                                ELSE /\ TRUE
                                     /\ UNCHANGED << sub, delivered >>
                          /\ pc' = [pc EXCEPT ![self] = "w_fin"]
                          /\ UNCHANGED << queue, aborted, up >>
               /\ UNCHANGED << emitted, unsubReturned, postedAfterUnsub, 
                               workerDone, nested, k, task >>

w_fin(self) == /\ pc[self] = "w_fin"
               /\ up' = FALSE
               /\ aborted' = TRUE
               /\ queue' = <<>>
               /\ pc' = [pc EXCEPT ![self] = "w_back"]
               /\ UNCHANGED << sub, delivered, emitted, unsubReturned, 
                               postedAfterUnsub, workerDone, nested, k, task >>

w_inl(self) == /\ pc[self] = "w_inl"
               /\ IF sub
                     THEN /\ delivered' = Append(delivered, <<"n", FB, "worker">>)
                          /\ nested' = TRUE
                     ELSE /\ TRUE
                          /\ UNCHANGED << delivered, nested >>
               /\ pc' = [pc EXCEPT ![self] = "w_back"]
               /\ UNCHANGED << queue, aborted, up, sub, emitted, unsubReturned, 
                               postedAfterUnsub, workerDone, k, task >>

w_back(self) == /\ pc[self] = "w_back"
                /\ pc' = [pc EXCEPT ![self] = "w_wait"]
                /\ UNCHANGED << queue, aborted, up, sub, delivered, emitted, 
                                unsubReturned, postedAfterUnsub, workerDone, 
                                nested, k, task >>

w_exit(self) == /\ pc[self] = "w_exit"
                /\ workerDone' = TRUE
                /\ pc' = [pc EXCEPT ![self] = "Done"]
                /\ UNCHANGED << queue, aborted, up, sub, delivered, emitted, 
                                unsubReturned, postedAfterUnsub, nested, k, 
                                task >>

worker(self) == w_wait(self) \/ w_run(self) \/ w_fin(self) \/ w_inl(self)
                   \/ w_back(self) \/ w_exit(self)

u_go(self) == /\ pc[self] = "u_go"
              /\ IF WithUnsub
                    THEN /\ pc' = [pc EXCEPT ![self] = "u_clear"]
                    ELSE /\ pc' = [pc EXCEPT ![self] = "Done"]
              /\ UNCHANGED << queue, aborted, up, sub, delivered, emitted, 
                              unsubReturned, postedAfterUnsub, workerDone, 
                              nested, k, task >>

u_clear(self) == /\ pc[self] = "u_clear"
                 /\ sub' = FALSE
                 /\ pc' = [pc EXCEPT ![self] = "u_fin"]
                 /\ UNCHANGED << queue, aborted, up, delivered, emitted, 
                                 unsubReturned, postedAfterUnsub, workerDone, 
                                 nested, k, task >>

u_fin(self) == /\ pc[self] = "u_fin"
               /\ up' = FALSE
               /\ aborted' = TRUE
               /\ queue' = <<>>
               /\ pc' = [pc EXCEPT ![self] = "u_ret"]
               /\ UNCHANGED << sub, delivered, emitted, unsubReturned, 
                               postedAfterUnsub, workerDone, nested, k, task >>

u_ret(self) == /\ pc[self] = "u_ret"
               /\ unsubReturned' = TRUE
               /\ pc' = [pc EXCEPT ![self] = "Done"]
               /\ UNCHANGED << queue, aborted, up, sub, delivered, emitted, 
                               postedAfterUnsub, workerDone, nested, k, task >>

unsub(self) == u_go(self) \/ u_clear(self) \/ u_fin(self) \/ u_ret(self)

(* Allow infinite stuttering to prevent deadlock on termination. *)
Terminating == /\ \A self \in ProcSet: pc[self] = "Done"
               /\ UNCHANGED vars

Next == (\E self \in {"emitter"}: emitter(self))
           \/ (\E self \in {"worker"}: worker(self))
           \/ (\E self \in {"unsub"}: unsub(self))
           \/ Terminating

Spec == /\ Init /\ [][Next]_vars
        /\ \A self \in {"emitter"} : WF_vars(emitter(self))
        /\ \A self \in {"worker"} : WF_vars(worker(self))
        /\ \A self \in {"unsub"} : WF_vars(unsub(self))

Termination == <>(\A self \in ProcSet: pc[self] = "Done")

\* END TRANSLATION 
=============================================================================
