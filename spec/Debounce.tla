------------------------------ MODULE Debounce ------------------------------
(* L1 model, in virtual time, of operators/debounce.rs (C16 "sample and debounce only ever deliver items the source emitted, in
   source order, none twice"; C15 for its worker):

     source thread    next(x): value.write() = Some(x)      error / complete: sink_* at once (then finalize -> scheduler.abort())
     worker           loop while is_subscribed(): sleep(D); take the value out of the slot under its write lock; if there was one,
                      sink_next(it).  It notices the end of the subscription at the top of its next round: it exits within one
                      period of the end.

   Time is a global clock that advances to the earliest wake-up only when nobody can step at the current instant (the rule
   of the controlled runtime).  The source is a script of gaps and events chosen from a grid; items are numbered 1, 2, ...
   ReadNotTake = TRUE is the seeded mistake C16r5-b's core (the slot is read but not emptied by the flush on completion /
   by the tick): TLC then shows an item delivered twice.
   Feedback = TRUE adds a feedback consumer: the subscriber's callback for item 1 pushes one more item (FB) into the source, from the
   worker thread, i.e. it stores into the slot while the worker is handing item 1 on.  HoldLockWhileDelivering = TRUE is the seeded
   mistake C15r12-a (`if let Some(v) = slot.write().take() { sink_next(v) }` keeps the guard alive across the call): the store
   blocks on the lock its own thread holds and the worker never moves again (NeverStuck, ExitWithinOnePeriod). *)
EXTENDS Integers, Sequences, FiniteSets, TLC
CONSTANTS D, Gaps, MaxEvents, ReadNotTake, Feedback, HoldLockWhileDelivering
FB == 100
Kinds == {"n", "c", "u"}
ScriptSpace == UNION { [1..n -> Gaps \X Kinds] : n \in 1..MaxEvents }
VARIABLES script, ip, now, srcWake, nextItem,
          slot,                       \* 0 = empty, else the pending item
          subscribed, ended,
          wWake, wState,              \* worker: "sleeping" until wWake | "exited"
          out, exitAt
vars == <<script, ip, now, srcWake, nextItem, slot, subscribed, ended, wWake, wState, out, exitAt>>

Init == /\ script \in ScriptSpace /\ ip = 1 /\ now = 0 /\ srcWake = script[1][1] /\ nextItem = 1
        /\ slot = 0 /\ subscribed = TRUE /\ ended = -1
        /\ wWake = D /\ wState = "sleeping" /\ out = <<>> /\ exitAt = -1
SrcDone == ip > Len(script)
SrcStep ==
  /\ ~SrcDone /\ srcWake = now
  /\ LET k == script[ip][2] IN
     /\ IF k = "n" THEN /\ slot' = nextItem /\ nextItem' = nextItem + 1        \* the upstream observer is unsubscribed at the end: no store afterwards
                        /\ UNCHANGED <<subscribed, ended, out>>
                        /\ subscribed
        ELSE IF subscribed THEN /\ subscribed' = FALSE /\ ended' = now
                                /\ out' = IF k = "c" THEN Append(out, <<now, "c", 0>>) ELSE out
                                /\ UNCHANGED <<slot, nextItem>>
        ELSE UNCHANGED <<slot, nextItem, subscribed, ended, out>>
  /\ ip' = ip + 1
  /\ srcWake' = IF ip + 1 <= Len(script) THEN now + script[ip + 1][1] ELSE now
  /\ UNCHANGED <<script, now, wWake, wState, exitAt>>
\* an item arriving after the end is not stored (its observer is gone): skip it
SrcSkip ==
  /\ ~SrcDone /\ srcWake = now /\ script[ip][2] = "n" /\ ~subscribed
  /\ ip' = ip + 1 /\ srcWake' = IF ip + 1 <= Len(script) THEN now + script[ip + 1][1] ELSE now
  /\ UNCHANGED <<script, now, nextItem, slot, subscribed, ended, wWake, wState, out, exitAt>>
\* the worker wakes: takes the slot, delivers, and either sleeps again or (subscription over) exits
WorkerStep ==
  /\ wState = "sleeping" /\ wWake = now
  /\ LET fed == Feedback /\ slot = 1 /\ subscribed IN          \* the callback for item 1 stores FB into the slot (source observer, worker thread)
     /\ slot' = IF fed /\ ~HoldLockWhileDelivering THEN FB ELSE IF ReadNotTake THEN slot ELSE 0
     /\ out' = IF slot # 0 /\ subscribed THEN Append(out, <<now, "n", slot>>) ELSE out
     /\ IF fed /\ HoldLockWhileDelivering THEN /\ wState' = "stuck" /\ UNCHANGED <<wWake, exitAt>>      \* blocked on its own write lock, for ever
        ELSE IF subscribed THEN /\ wWake' = now + D /\ UNCHANGED <<wState, exitAt>>
        ELSE /\ wState' = "exited" /\ exitAt' = now /\ UNCHANGED wWake
  /\ UNCHANGED <<script, ip, now, srcWake, nextItem, subscribed, ended>>
CanStepNow == (~SrcDone /\ srcWake = now) \/ (wState = "sleeping" /\ wWake = now)
Wakes == (IF wState = "sleeping" THEN {wWake} ELSE {}) \cup (IF SrcDone THEN {} ELSE {srcWake})
\* when nobody is subscribed any more and the source is done, the worker still has to wake once to notice
Tick == /\ ~CanStepNow /\ Wakes # {} /\ (subscribed => ~SrcDone \/ FALSE)
        /\ now' = CHOOSE w \in Wakes : \A x \in Wakes : w <= x
        /\ UNCHANGED <<script, ip, srcWake, nextItem, slot, subscribed, ended, wWake, wState, out, exitAt>>
Quiet == ~CanStepNow /\ (Wakes = {} \/ (subscribed /\ SrcDone))
Next == SrcStep \/ SrcSkip \/ WorkerStep \/ Tick \/ (Quiet /\ UNCHANGED vars)
Spec == Init /\ [][Next]_vars /\ WF_vars(SrcStep \/ SrcSkip \/ WorkerStep \/ Tick)

Items == SelectSeq(out, LAMBDA e : e[2] = "n")
\* C16: only items the source emitted (numbers below nextItem), in source order, none twice
OnlyEmitted == \A i \in 1..Len(Items) : Items[i][3] \in 1..(nextItem - 1) \cup (IF Feedback THEN {FB} ELSE {})
NeverStuck == wState # "stuck"
InOrderNoneTwice == \A i, j \in 1..Len(Items) : i < j => (Items[i][3] # Items[j][3] /\ (Items[i][3] # FB /\ Items[j][3] # FB => Items[i][3] < Items[j][3]))
NothingAfterEnd == \A i \in 1..Len(out) : ended # -1 => out[i][1] <= ended
\* C15: the worker exits within one period of the end
ExitWithinOnePeriod == exitAt # -1 => exitAt <= ended + D
WorkerExits == (ended # -1) ~> (wState = "exited")
=============================================================================
