---------------------------- MODULE CombConcTrace ----------------------------
(* Lock-level conformance (drift) of the real merge operator (StreamController::sink_next / sink_complete with one input per
   thread) with the L1 design model CombConc (Amb = FALSE, AtomicRemove = TRUE).  Per emitting thread (= input) the facade's lock log
   is reduced to:

     call(k)   the thread starts Subject::next (k = "n") or Subject::complete (k = "c") on its input
     chk       the first read acquisition of the subscriber's next slot after `call`  = is_subscribed() of sink_next / sink_complete
                                                                                      = i_chk / c_chk
     rm        write acquisition of the controller's unsubscriber map                  = c_rm (remove the entry AND decide "last")
     cb(k)     the subscriber's callback ran                                           = i_next / c_done with a delivery
     ret       the call returned                                                       = assertion: the model is between calls

   Control-only labels (i_loop, i_win, c_win, c_rm2) and deliveries that do not happen (i_next without `won /\ sub`, c_done of an input
   that was not the last) are silent steps.  The invariants of the design model are evaluated along the real execution. *)
EXTENDS CombConc, Json, IOUtils
Rec == ndJsonDeserialize(IOEnv.TRACE)
VARIABLE l
tvars == <<vars, l>>
R == Rec[l]
Is(op) == l <= Len(Rec) /\ R.ev = op /\ l' = l + 1
TInit == Init /\ l = 1 /\ TLCSet(42, 1)
Reset == /\ Is("reset")
         /\ ups' = Inputs /\ subscribed' = TRUE /\ winner' = 0 /\ delivered' = <<>> /\ completes' = 0
         /\ k' = [self \in Inputs |-> 0] /\ sub' = [self \in Inputs |-> FALSE] /\ won' = [self \in Inputs |-> FALSE]
         /\ last' = [self \in Inputs |-> FALSE] /\ seen' = [self \in Inputs |-> 0]
         /\ pc' = [self \in ProcSet |-> "i_loop"]
Event ==
  LET t == R.t IN
  \/ Is("call") /\ R.k = "n" /\ pc[t] = "i_chk" /\ UNCHANGED vars
  \/ Is("call") /\ R.k = "c" /\ pc[t] = "c_chk" /\ UNCHANGED vars
  \/ Is("chk") /\ (i_chk(t) \/ c_chk(t))
  \/ Is("rm") /\ c_rm(t)
  \/ Is("cb") /\ R.k = "n" /\ i_next(t) /\ Len(delivered') = Len(delivered) + 1
  \/ Is("cb") /\ R.k = "c" /\ c_done(t) /\ completes' = completes + 1
  \/ Is("ret") /\ pc[t] \in {"i_chk", "c_chk", "Done"} /\ UNCHANGED vars
Silent == /\ UNCHANGED l
          /\ \E t \in Inputs :
               \/ i_loop(t) \/ i_win(t) \/ c_win(t) \/ c_rm2(t)
               \/ (i_next(t) /\ Len(delivered') = Len(delivered))
               \/ (c_done(t) /\ completes' = completes)
               \/ (pc[t] = "c_rm" /\ ~(won[t] /\ sub[t]) /\ c_rm(t))          \* the check failed: no removal step in the code either
TNext == Reset \/ Event \/ Silent
TSpec == TInit /\ [][TNext]_tvars
Progress == TLCSet(42, IF TLCGet(42) < l THEN l ELSE TLCGet(42))
ModelInvariants == AtMostOneComplete /\ CompleteIsLast
Accepted == IF TLCGet(42) = Len(Rec) + 1 THEN TRUE
            ELSE Print(<<"DRIFT: CombConc cannot follow the lock log at line", TLCGet(42), Rec[TLCGet(42)]>>, FALSE)
=============================================================================
