------------------------------ MODULE CombConc ------------------------------
(* L1 (lock-operation level) model of what lets merge / flat_map / zip / concat terminate exactly once and amb let exactly
   one input through when their inputs run on different threads (C11):

     StreamController::sink_complete(serial)   is_subscribed();  under the write lock of the unsubscriber map: remove the
                                               entry AND decide "was I the last one" (one critical section);  unsubscribe the
                                               removed input;  if last: subscriber.complete() (arbitrated by the next slot), finalize
     StreamController::sink_next               is_subscribed();  subscriber.next()
     amb's is_win(serial)                      compare-or-elect under ONE write lock of the winner cell

   Each input thread delivers NItems items and then completes.  Invariants: the subscriber sees exactly one complete, after
   every item of every input (merge); at most one input ever gets an item through (amb).
   AtomicRemove = FALSE / AtomicElect = FALSE model the two classic mistakes (decide before removing; read, then elect without
   re-check) and TLC exhibits the lost completion / the second winner. *)
EXTENDS Integers, Sequences, FiniteSets, TLC
CONSTANTS NInputs, NItems, Amb, AtomicRemove, AtomicElect
Inputs == 1..NInputs
(* --algorithm CombConc {
variables
  ups = Inputs,                 \* the unsubscriber map (serials of inputs not yet completed)
  subscribed = TRUE,            \* the subscriber's next slot (arbiter of terminals)
  winner = 0,                   \* amb's winner cell
  delivered = <<>>,             \* what the subscriber saw: <<input, "n">> or <<0, "c">>
  completes = 0;
define {
  Done == \A i \in Inputs : pc[i] = "Done"
  ItemsOf(i) == Len(SelectSeq(delivered, LAMBDA e : e[1] = i))
  ExactlyOneComplete == Done => completes = 1
  AtMostOneComplete == completes <= 1
  CompleteIsLast == \A k \in 1..Len(delivered) : delivered[k][2] = "c" => k = Len(delivered)
  NothingLost == (Done /\ ~Amb) => \A i \in Inputs : ItemsOf(i) = NItems
  OneWinner == Amb => Cardinality({ i \in Inputs : ItemsOf(i) > 0 }) <= 1
  WinnerComplete == (Done /\ Amb) => \E i \in Inputs : ItemsOf(i) = NItems
}
fair process (input \in Inputs)
variables k = 0, sub = FALSE, won = FALSE, last = FALSE, seen = 0;
{
i_loop:  while (k < NItems) {
i_win:     if (Amb) {
             if (AtomicElect) { if (winner = 0) { winner := self }; won := (winner = self) }
             else { seen := winner };                                   \* read lock only
i_elect:     if (Amb /\ ~AtomicElect) { if (seen = 0) { winner := self; won := TRUE } else { won := (seen = self) } };
           } else { won := TRUE };
i_chk:     sub := subscribed;                                           \* sink_next: is_subscribed()
i_next:    if (won /\ sub) { delivered := Append(delivered, <<self, "n">>) };
           k := k + 1;
         };
c_win:   if (Amb) { if (winner = 0) { winner := self }; won := (winner = self) } else { won := TRUE };
c_chk:   sub := subscribed;                                             \* sink_complete: is_subscribed()
c_rm:    if (won /\ sub) {
           if (Amb) { last := TRUE }                                    \* amb: the winner's completion ends the stream (sink_complete_force)
           else if (AtomicRemove) { ups := ups \ {self}; last := (ups = {}) }
           else { last := (ups \ {self} = {}) };                        \* mistake: decide under a read lock ...
c_rm2:     if (~Amb /\ ~AtomicRemove) { ups := ups \ {self} };          \* ... remove afterwards
c_done:    if (last) {
             if (subscribed) { subscribed := FALSE; delivered := Append(delivered, <<0, "c">>); completes := completes + 1 }
           }
         }
}
} *)
\* BEGIN TRANSLATION (chksum(pcal) = "f5bac5b0" /\ chksum(tla) = "10219d30")
VARIABLES pc, ups, subscribed, winner, delivered, completes

(* define statement *)
Done == \A i \in Inputs : pc[i] = "Done"
ItemsOf(i) == Len(SelectSeq(delivered, LAMBDA e : e[1] = i))
ExactlyOneComplete == Done => completes = 1
AtMostOneComplete == completes <= 1
CompleteIsLast == \A k \in 1..Len(delivered) : delivered[k][2] = "c" => k = Len(delivered)
NothingLost == (Done /\ ~Amb) => \A i \in Inputs : ItemsOf(i) = NItems
OneWinner == Amb => Cardinality({ i \in Inputs : ItemsOf(i) > 0 }) <= 1
WinnerComplete == (Done /\ Amb) => \E i \in Inputs : ItemsOf(i) = NItems

VARIABLES k, sub, won, last, seen

vars == << pc, ups, subscribed, winner, delivered, completes, k, sub, won, 
           last, seen >>

ProcSet == (Inputs)

Init == (* Global variables *)
        /\ ups = Inputs
        /\ subscribed = TRUE
        /\ winner = 0
        /\ delivered = <<>>
        /\ completes = 0
        (* Process input *)
        /\ k = [self \in Inputs |-> 0]
        /\ sub = [self \in Inputs |-> FALSE]
        /\ won = [self \in Inputs |-> FALSE]
        /\ last = [self \in Inputs |-> FALSE]
        /\ seen = [self \in Inputs |-> 0]
        /\ pc = [self \in ProcSet |-> "i_loop"]

i_loop(self) == /\ pc[self] = "i_loop"
                /\ IF k[self] < NItems
                      THEN /\ pc' = [pc EXCEPT ![self] = "i_win"]
                      ELSE /\ pc' = [pc EXCEPT ![self] = "c_win"]
                /\ UNCHANGED << ups, subscribed, winner, delivered, completes, 
                                k, sub, won, last, seen >>

i_win(self) == /\ pc[self] = "i_win"
               /\ IF Amb
                     THEN /\ IF AtomicElect
                                THEN /\ IF winner = 0
                                           THEN /\ winner' = self
                                           ELSE /\ TRUE
                                                /\ UNCHANGED winner
                                     /\ won' = [won EXCEPT ![self] = (winner' = self)]
                                     /\ seen' = seen
                                ELSE /\ seen' = [seen EXCEPT ![self] = winner]
                                     /\ UNCHANGED << winner, won >>
                          /\ pc' = [pc EXCEPT ![self] = "i_elect"]
                     ELSE /\ won' = [won EXCEPT ![self] = TRUE]
                          /\ pc' = [pc EXCEPT ![self] = "i_chk"]
                          /\ UNCHANGED << winner, seen >>
               /\ UNCHANGED << ups, subscribed, delivered, completes, k, sub, 
                               last >>

i_elect(self) == /\ pc[self] = "i_elect"
                 /\ IF Amb /\ ~AtomicElect
                       THEN /\ IF seen[self] = 0
                                  THEN /\ winner' = self
                                       /\ won' = [won EXCEPT ![self] = TRUE]
                                  ELSE /\ won' = [won EXCEPT ![self] = (seen[self] = self)]
                                       /\ UNCHANGED winner
                       ELSE /\ TRUE
                            /\ UNCHANGED << winner, won >>
                 /\ pc' = [pc EXCEPT ![self] = "i_chk"]
                 /\ UNCHANGED << ups, subscribed, delivered, completes, k, sub, 
                                 last, seen >>

i_chk(self) == /\ pc[self] = "i_chk"
               /\ sub' = [sub EXCEPT ![self] = subscribed]
               /\ pc' = [pc EXCEPT ![self] = "i_next"]
               /\ UNCHANGED << ups, subscribed, winner, delivered, completes, 
                               k, won, last, seen >>

i_next(self) == /\ pc[self] = "i_next"
                /\ IF won[self] /\ sub[self]
                      THEN /\ delivered' = Append(delivered, <<self, "n">>)
                      ELSE /\ TRUE
                           /\ UNCHANGED delivered
                /\ k' = [k EXCEPT ![self] = k[self] + 1]
                /\ pc' = [pc EXCEPT ![self] = "i_loop"]
                /\ UNCHANGED << ups, subscribed, winner, completes, sub, won, 
                                last, seen >>

c_win(self) == /\ pc[self] = "c_win"
               /\ IF Amb
                     THEN /\ IF winner = 0
                                THEN /\ winner' = self
                                ELSE /\ TRUE
                                     /\ UNCHANGED winner
                          /\ won' = [won EXCEPT ![self] = (winner' = self)]
                     ELSE /\ won' = [won EXCEPT ![self] = TRUE]
                          /\ UNCHANGED winner
               /\ pc' = [pc EXCEPT ![self] = "c_chk"]
               /\ UNCHANGED << ups, subscribed, delivered, completes, k, sub, 
                               last, seen >>

c_chk(self) == /\ pc[self] = "c_chk"
               /\ sub' = [sub EXCEPT ![self] = subscribed]
               /\ pc' = [pc EXCEPT ![self] = "c_rm"]
               /\ UNCHANGED << ups, subscribed, winner, delivered, completes, 
                               k, won, last, seen >>

c_rm(self) == /\ pc[self] = "c_rm"
              /\ IF won[self] /\ sub[self]
                    THEN /\ IF Amb
                               THEN /\ last' = [last EXCEPT ![self] = TRUE]
                                    /\ ups' = ups
                               ELSE /\ IF AtomicRemove
                                          THEN /\ ups' = ups \ {self}
                                               /\ last' = [last EXCEPT ![self] = (ups' = {})]
                                          ELSE /\ last' = [last EXCEPT ![self] = (ups \ {self} = {})]
                                               /\ ups' = ups
                         /\ pc' = [pc EXCEPT ![self] = "c_rm2"]
                    ELSE /\ pc' = [pc EXCEPT ![self] = "Done"]
                         /\ UNCHANGED << ups, last >>
              /\ UNCHANGED << subscribed, winner, delivered, completes, k, sub, 
                              won, seen >>

c_rm2(self) == /\ pc[self] = "c_rm2"
               /\ IF ~Amb /\ ~AtomicRemove
                     THEN /\ ups' = ups \ {self}
                     ELSE /\ TRUE
                          /\ ups' = ups
               /\ pc' = [pc EXCEPT ![self] = "c_done"]
               /\ UNCHANGED << subscribed, winner, delivered, completes, k, 
                               sub, won, last, seen >>

c_done(self) == /\ pc[self] = "c_done"
                /\ IF last[self]
                      THEN /\ IF subscribed
                                 THEN /\ subscribed' = FALSE
                                      /\ delivered' = Append(delivered, <<0, "c">>)
                                      /\ completes' = completes + 1
                                 ELSE /\ TRUE
                                      /\ UNCHANGED << subscribed, delivered, 
                                                      completes >>
                      ELSE /\ TRUE
                           /\ UNCHANGED << subscribed, delivered, completes >>
                /\ pc' = [pc EXCEPT ![self] = "Done"]
                /\ UNCHANGED << ups, winner, k, sub, won, last, seen >>

input(self) == i_loop(self) \/ i_win(self) \/ i_elect(self) \/ i_chk(self)
                  \/ i_next(self) \/ c_win(self) \/ c_chk(self)
                  \/ c_rm(self) \/ c_rm2(self) \/ c_done(self)

(* Allow infinite stuttering to prevent deadlock on termination. *)
Terminating == /\ \A self \in ProcSet: pc[self] = "Done"
               /\ UNCHANGED vars

Next == (\E self \in Inputs: input(self))
           \/ Terminating

Spec == /\ Init /\ [][Next]_vars
        /\ \A self \in Inputs : WF_vars(input(self))

Termination == <>(\A self \in ProcSet: pc[self] = "Done")

\* END TRANSLATION 
=============================================================================
