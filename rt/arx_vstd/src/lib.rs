//! Prototype facade: everything from std, except sync::{RwLock,Mutex,Condvar}, thread::{spawn,sleep,...}
//! which are routed through a controlled scheduling runtime when one is active on the calling thread.
pub use ::std::*;

pub mod rt;
mod collections_impl { include!("collections.rs"); }
pub mod collections {
  pub use crate::collections_impl::{HashMap, REVERSE};
  pub use ::std::collections::*;
}

pub mod sync {
  pub use crate::rt::{Condvar, Mutex, MutexGuard, RwLock, RwLockReadGuard, RwLockWriteGuard, WaitTimeoutResult};
  pub use ::std::sync::*;
}
pub mod thread {
  pub use crate::rt::{sleep, spawn, yield_now, JoinHandle};
  pub use ::std::thread::*;
}
