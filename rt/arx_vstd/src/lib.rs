//! Prototype facade: everything from std, except sync::{RwLock,Mutex,Condvar}, sync::atomic::*, thread::{spawn,sleep,...}
//! which are routed through a controlled scheduling runtime when one is active on the calling thread.
pub use ::std::*;

pub mod rt;
mod atomics;
mod collections_impl { include!("collections.rs"); }
pub mod collections {
  pub use crate::collections_impl::{HashMap, REVERSE};
  pub use ::std::collections::*;
}

pub mod sync {
  pub use crate::rt::{Condvar, Mutex, MutexGuard, RwLock, RwLockReadGuard, RwLockWriteGuard, WaitTimeoutResult};
  pub use ::std::sync::*;
  /// (shadows the glob import: operations on atomics are schedule points)
  pub mod atomic {
    pub use crate::atomics::*;
  }
}
pub mod thread {
  pub use crate::rt::{sleep, spawn, yield_now, JoinHandle};
  pub use ::std::thread::*;
}
