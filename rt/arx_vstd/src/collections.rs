// insertion-ordered replacement for std::collections::HashMap (needs only K: Eq); iteration order is
// insertion order, or its reverse when the run asks for it, so that the order is a known function of history.
use std::sync::atomic::{AtomicBool, Ordering};
pub static REVERSE: AtomicBool = AtomicBool::new(false);
#[derive(Clone, Debug)]
pub struct HashMap<K, V> { items: Vec<(K, V)> }
impl<K, V> Default for HashMap<K, V> { fn default() -> Self { HashMap { items: Vec::new() } } }
impl<K: Eq, V> HashMap<K, V> {
  pub fn new() -> Self { HashMap { items: Vec::new() } }
  pub fn with_capacity(_n: usize) -> Self { Self::new() }
  pub fn len(&self) -> usize { self.items.len() }
  pub fn is_empty(&self) -> bool { self.items.is_empty() }
  pub fn clear(&mut self) { self.items.clear() }
  fn pos<Q: ?Sized>(&self, k: &Q) -> Option<usize> where K: std::borrow::Borrow<Q>, Q: Eq { self.items.iter().position(|(kk, _)| kk.borrow() == k) }
  pub fn insert(&mut self, k: K, v: V) -> Option<V> {
    match self.pos(&k) { Some(i) => Some(std::mem::replace(&mut self.items[i].1, v)), None => { self.items.push((k, v)); None } }
  }
  pub fn remove<Q: ?Sized>(&mut self, k: &Q) -> Option<V> where K: std::borrow::Borrow<Q>, Q: Eq { self.pos(k).map(|i| self.items.remove(i).1) }
  pub fn get<Q: ?Sized>(&self, k: &Q) -> Option<&V> where K: std::borrow::Borrow<Q>, Q: Eq { self.pos(k).map(|i| &self.items[i].1) }
  pub fn get_mut<Q: ?Sized>(&mut self, k: &Q) -> Option<&mut V> where K: std::borrow::Borrow<Q>, Q: Eq { self.pos(k).map(move |i| &mut self.items[i].1) }
  pub fn contains_key<Q: ?Sized>(&self, k: &Q) -> bool where K: std::borrow::Borrow<Q>, Q: Eq { self.pos(k).is_some() }
  pub fn iter(&self) -> Box<dyn Iterator<Item = (&K, &V)> + '_> {
    let it = self.items.iter().map(|(k, v)| (k, v));
    if REVERSE.load(Ordering::Relaxed) { Box::new(it.rev()) } else { Box::new(it) }
  }
  pub fn keys(&self) -> Box<dyn Iterator<Item = &K> + '_> { Box::new(self.iter().map(|(k, _)| k)) }
  pub fn values(&self) -> Box<dyn Iterator<Item = &V> + '_> { Box::new(self.iter().map(|(_, v)| v)) }
  pub fn retain<F: FnMut(&K, &mut V) -> bool>(&mut self, mut f: F) { self.items.retain_mut(|(k, v)| f(k, v)) }
  // the rest of the std API that a change of the crate may reasonably start to use (same order convention)
  fn ordered(v: Vec<(K, V)>) -> Vec<(K, V)> { if REVERSE.load(Ordering::Relaxed) { v.into_iter().rev().collect() } else { v } }
  pub fn drain(&mut self) -> std::vec::IntoIter<(K, V)> { Self::ordered(std::mem::take(&mut self.items)).into_iter() }
  pub fn iter_mut(&mut self) -> Box<dyn Iterator<Item = (&K, &mut V)> + '_> {
    let it = self.items.iter_mut().map(|(k, v)| (&*k, v));
    if REVERSE.load(Ordering::Relaxed) { Box::new(it.rev()) } else { Box::new(it) }
  }
  pub fn values_mut(&mut self) -> Box<dyn Iterator<Item = &mut V> + '_> { Box::new(self.iter_mut().map(|(_, v)| v)) }
  pub fn into_keys(self) -> std::vec::IntoIter<K> { Self::ordered(self.items).into_iter().map(|(k, _)| k).collect::<Vec<_>>().into_iter() }
  pub fn into_values(self) -> std::vec::IntoIter<V> { Self::ordered(self.items).into_iter().map(|(_, v)| v).collect::<Vec<_>>().into_iter() }
  pub fn remove_entry<Q: ?Sized>(&mut self, k: &Q) -> Option<(K, V)> where K: std::borrow::Borrow<Q>, Q: Eq { self.pos(k).map(|i| self.items.remove(i)) }
  pub fn get_key_value<Q: ?Sized>(&self, k: &Q) -> Option<(&K, &V)> where K: std::borrow::Borrow<Q>, Q: Eq { self.pos(k).map(|i| (&self.items[i].0, &self.items[i].1)) }
  pub fn capacity(&self) -> usize { self.items.capacity() }
  pub fn reserve(&mut self, n: usize) { self.items.reserve(n) }
  pub fn shrink_to_fit(&mut self) { self.items.shrink_to_fit() }
  /// `entry(k).or_insert(v)` / `.or_insert_with(f)` / `.or_default()` / `.and_modify(f)`
  pub fn entry(&mut self, k: K) -> Entry<'_, K, V> { Entry { map: self, key: k } }
}
pub struct Entry<'a, K, V> { map: &'a mut HashMap<K, V>, key: K }
impl<'a, K: Eq, V> Entry<'a, K, V> {
  pub fn or_insert(self, v: V) -> &'a mut V { self.or_insert_with(|| v) }
  pub fn or_insert_with<F: FnOnce() -> V>(self, f: F) -> &'a mut V {
    let i = match self.map.pos(&self.key) { Some(i) => i, None => { self.map.items.push((self.key, f())); self.map.items.len() - 1 } };
    &mut self.map.items[i].1
  }
  pub fn or_default(self) -> &'a mut V where V: Default { self.or_insert_with(V::default) }
  pub fn and_modify<F: FnOnce(&mut V)>(self, f: F) -> Self {
    if let Some(i) = self.map.pos(&self.key) { f(&mut self.map.items[i].1); }
    self
  }
  pub fn key(&self) -> &K { &self.key }
}
impl<K: Eq, V> IntoIterator for HashMap<K, V> {
  type Item = (K, V);
  type IntoIter = std::vec::IntoIter<(K, V)>;
  fn into_iter(self) -> Self::IntoIter { Self::ordered(self.items).into_iter() }
}
impl<'a, K: Eq, V> IntoIterator for &'a HashMap<K, V> {
  type Item = (&'a K, &'a V);
  type IntoIter = Box<dyn Iterator<Item = (&'a K, &'a V)> + 'a>;
  fn into_iter(self) -> Self::IntoIter { self.iter() }
}
impl<K: Eq, V> FromIterator<(K, V)> for HashMap<K, V> {
  fn from_iter<T: IntoIterator<Item = (K, V)>>(it: T) -> Self { let mut m = HashMap::new(); for (k, v) in it { m.insert(k, v); } m }
}
impl<K: Eq, V> Extend<(K, V)> for HashMap<K, V> {
  fn extend<T: IntoIterator<Item = (K, V)>>(&mut self, it: T) { for (k, v) in it { self.insert(k, v); } }
}
impl<K: Eq, Q: ?Sized + Eq, V> std::ops::Index<&Q> for HashMap<K, V> where K: std::borrow::Borrow<Q> {
  type Output = V;
  fn index(&self, k: &Q) -> &V { self.get(k).expect("no entry found for key") }
}
