// insertion-ordered replacement for std::collections::HashMap (needs only K: Eq); iteration order is
// insertion order, or its reverse when the run asks for it, so that the order is a known function of history.
use std::sync::atomic::{AtomicBool, Ordering};
pub static REVERSE: AtomicBool = AtomicBool::new(false);
#[derive(Clone, Debug)]
pub struct HashMap<K, V> { items: Vec<(K, V)> }
impl<K, V> Default for HashMap<K, V> { fn default() -> Self { HashMap { items: Vec::new() } } }
impl<K: Eq, V> HashMap<K, V> {
  pub fn new() -> Self { HashMap { items: Vec::new() } }
  pub fn with_capacity(_n: usize) -> Self { Self::new() }
  pub fn len(&self) -> usize { self.items.len() }
  pub fn is_empty(&self) -> bool { self.items.is_empty() }
  pub fn clear(&mut self) { self.items.clear() }
  fn pos<Q: ?Sized>(&self, k: &Q) -> Option<usize> where K: std::borrow::Borrow<Q>, Q: Eq { self.items.iter().position(|(kk, _)| kk.borrow() == k) }
  pub fn insert(&mut self, k: K, v: V) -> Option<V> {
    match self.pos(&k) { Some(i) => Some(std::mem::replace(&mut self.items[i].1, v)), None => { self.items.push((k, v)); None } }
  }
  pub fn remove<Q: ?Sized>(&mut self, k: &Q) -> Option<V> where K: std::borrow::Borrow<Q>, Q: Eq { self.pos(k).map(|i| self.items.remove(i).1) }
  pub fn get<Q: ?Sized>(&self, k: &Q) -> Option<&V> where K: std::borrow::Borrow<Q>, Q: Eq { self.pos(k).map(|i| &self.items[i].1) }
  pub fn get_mut<Q: ?Sized>(&mut self, k: &Q) -> Option<&mut V> where K: std::borrow::Borrow<Q>, Q: Eq { self.pos(k).map(move |i| &mut self.items[i].1) }
  pub fn contains_key<Q: ?Sized>(&self, k: &Q) -> bool where K: std::borrow::Borrow<Q>, Q: Eq { self.pos(k).is_some() }
  pub fn iter(&self) -> Box<dyn Iterator<Item = (&K, &V)> + '_> {
    let it = self.items.iter().map(|(k, v)| (k, v));
    if REVERSE.load(Ordering::Relaxed) { Box::new(it.rev()) } else { Box::new(it) }
  }
  pub fn keys(&self) -> Box<dyn Iterator<Item = &K> + '_> { Box::new(self.iter().map(|(k, _)| k)) }
  pub fn values(&self) -> Box<dyn Iterator<Item = &V> + '_> { Box::new(self.iter().map(|(_, v)| v)) }
  pub fn retain<F: FnMut(&K, &mut V) -> bool>(&mut self, mut f: F) { self.items.retain_mut(|(k, v)| f(k, v)) }
}
