//! Atomics of the facade: the real std atomics, but every operation is a schedule point of the controlled runtime when
//! one is active on the calling thread (lock-free state is only observable at these points, so a check-then-act on an
//! atomic flag is explored like one on a lock).  Outside a run they are the std types' behaviour unchanged.
use std::sync::atomic as sa;
pub use std::sync::atomic::{compiler_fence, fence, Ordering};

#[inline]
fn point() {
  crate::rt::atomic_point();
}

macro_rules! int_atomic {
  ($name:ident, $inner:ty, $t:ty) => {
    #[derive(Default, Debug)]
    pub struct $name($inner);
    impl $name {
      pub const fn new(v: $t) -> Self {
        $name(<$inner>::new(v))
      }
      pub fn load(&self, o: Ordering) -> $t {
        point();
        self.0.load(o)
      }
      pub fn store(&self, v: $t, o: Ordering) {
        point();
        self.0.store(v, o)
      }
      pub fn swap(&self, v: $t, o: Ordering) -> $t {
        point();
        self.0.swap(v, o)
      }
      pub fn compare_exchange(&self, c: $t, n: $t, s: Ordering, f: Ordering) -> Result<$t, $t> {
        point();
        self.0.compare_exchange(c, n, s, f)
      }
      pub fn compare_exchange_weak(&self, c: $t, n: $t, s: Ordering, f: Ordering) -> Result<$t, $t> {
        point();
        self.0.compare_exchange(c, n, s, f)
      }
      pub fn fetch_add(&self, v: $t, o: Ordering) -> $t {
        point();
        self.0.fetch_add(v, o)
      }
      pub fn fetch_sub(&self, v: $t, o: Ordering) -> $t {
        point();
        self.0.fetch_sub(v, o)
      }
      pub fn fetch_and(&self, v: $t, o: Ordering) -> $t {
        point();
        self.0.fetch_and(v, o)
      }
      pub fn fetch_or(&self, v: $t, o: Ordering) -> $t {
        point();
        self.0.fetch_or(v, o)
      }
      pub fn fetch_xor(&self, v: $t, o: Ordering) -> $t {
        point();
        self.0.fetch_xor(v, o)
      }
      pub fn fetch_max(&self, v: $t, o: Ordering) -> $t {
        point();
        self.0.fetch_max(v, o)
      }
      pub fn fetch_min(&self, v: $t, o: Ordering) -> $t {
        point();
        self.0.fetch_min(v, o)
      }
      pub fn fetch_update<F: FnMut($t) -> Option<$t>>(&self, s: Ordering, f: Ordering, g: F) -> Result<$t, $t> {
        point();
        self.0.fetch_update(s, f, g)
      }
      pub fn into_inner(self) -> $t {
        self.0.into_inner()
      }
      pub fn get_mut(&mut self) -> &mut $t {
        self.0.get_mut()
      }
    }
    impl From<$t> for $name {
      fn from(v: $t) -> Self {
        $name::new(v)
      }
    }
  };
}
int_atomic!(AtomicUsize, sa::AtomicUsize, usize);
int_atomic!(AtomicIsize, sa::AtomicIsize, isize);
int_atomic!(AtomicU64, sa::AtomicU64, u64);
int_atomic!(AtomicI64, sa::AtomicI64, i64);
int_atomic!(AtomicU32, sa::AtomicU32, u32);
int_atomic!(AtomicI32, sa::AtomicI32, i32);
int_atomic!(AtomicU16, sa::AtomicU16, u16);
int_atomic!(AtomicI16, sa::AtomicI16, i16);
int_atomic!(AtomicU8, sa::AtomicU8, u8);
int_atomic!(AtomicI8, sa::AtomicI8, i8);

#[derive(Default, Debug)]
pub struct AtomicBool(sa::AtomicBool);
impl AtomicBool {
  pub const fn new(v: bool) -> Self {
    AtomicBool(sa::AtomicBool::new(v))
  }
  pub fn load(&self, o: Ordering) -> bool {
    point();
    self.0.load(o)
  }
  pub fn store(&self, v: bool, o: Ordering) {
    point();
    self.0.store(v, o)
  }
  pub fn swap(&self, v: bool, o: Ordering) -> bool {
    point();
    self.0.swap(v, o)
  }
  pub fn compare_exchange(&self, c: bool, n: bool, s: Ordering, f: Ordering) -> Result<bool, bool> {
    point();
    self.0.compare_exchange(c, n, s, f)
  }
  pub fn compare_exchange_weak(&self, c: bool, n: bool, s: Ordering, f: Ordering) -> Result<bool, bool> {
    point();
    self.0.compare_exchange(c, n, s, f)
  }
  pub fn fetch_and(&self, v: bool, o: Ordering) -> bool {
    point();
    self.0.fetch_and(v, o)
  }
  pub fn fetch_or(&self, v: bool, o: Ordering) -> bool {
    point();
    self.0.fetch_or(v, o)
  }
  pub fn fetch_xor(&self, v: bool, o: Ordering) -> bool {
    point();
    self.0.fetch_xor(v, o)
  }
  pub fn fetch_nand(&self, v: bool, o: Ordering) -> bool {
    point();
    self.0.fetch_nand(v, o)
  }
  pub fn fetch_update<F: FnMut(bool) -> Option<bool>>(&self, s: Ordering, f: Ordering, g: F) -> Result<bool, bool> {
    point();
    self.0.fetch_update(s, f, g)
  }
  pub fn into_inner(self) -> bool {
    self.0.into_inner()
  }
  pub fn get_mut(&mut self) -> &mut bool {
    self.0.get_mut()
  }
}
impl From<bool> for AtomicBool {
  fn from(v: bool) -> Self {
    AtomicBool::new(v)
  }
}
pub use std::sync::atomic::AtomicPtr;
