//! Controlled scheduling runtime (prototype).
//! One logical thread runs at a time (baton passing between real OS threads).
//! Every facade operation is a schedule point. Virtual clock for sleep.
use std::cell::Cell;
use std::panic::{self, AssertUnwindSafe, Location};
use std::sync as ss;
use std::sync::{Arc, LockResult, PoisonError, TryLockError};
use std::time::Duration;

// ---------------------------------------------------------------- model state

#[derive(Clone, Copy, PartialEq, Eq, Debug)]
pub enum Mode {
  R,
  W,
}

#[derive(Clone, PartialEq, Eq, Debug)]
enum ThState {
  Runnable,
  WantLock { lock: usize, mode: Mode },
  CvWait { cv: usize, lock: usize, until: Option<u64> },
  Sleeping { until: u64 },
  JoinWait { tid: usize },
  Finished,
}

struct Baton {
  m: ss::Mutex<bool>,
  c: ss::Condvar,
}
impl Baton {
  fn new() -> Arc<Baton> {
    Arc::new(Baton { m: ss::Mutex::new(false), c: ss::Condvar::new() })
  }
  fn give(&self) {
    *self.m.lock().unwrap() = true;
    self.c.notify_one();
  }
  fn take(&self) {
    let mut g = self.m.lock().unwrap();
    while !*g {
      g = self.c.wait(g).unwrap();
    }
    *g = false;
  }
}

struct Th {
  state: ThState,
  baton: Arc<Baton>,
  steps: u64,
  panicked: Option<String>,
}

struct LockSt {
  writer: Option<usize>,
  readers: Vec<usize>,
  site: String,
  is_mutex: bool,
}

#[derive(Clone, Debug)]
pub enum Strategy {
  /// uniformly random among enabled threads
  Random { seed: u64 },
  /// follow a thread-id schedule (one entry per decision); on divergence keep the current thread
  Follow { tids: Vec<usize> },
  /// replay `prefix` of choice indices (index into enabled set sorted by tid), then run non-preemptively
  Dfs { prefix: Vec<usize> },
}

#[derive(Clone, Debug)]
pub struct Choice {
  pub n_enabled: usize,
  pub chosen: usize,
  /// index (in the enabled list) of the thread that was running, if it is still enabled
  pub cur_idx: Option<usize>,
}

#[derive(Clone, Debug)]
pub struct Event {
  pub seq: u64,
  pub tid: usize,
  pub clock: u64,
  pub what: String,
}

#[derive(Debug, Clone, PartialEq)]
pub enum Outcome {
  AllFinished,
  Deadlock(Vec<(usize, String)>),
  StepBudget,
}

pub struct RunResult {
  pub outcome: Outcome,
  pub events: Vec<Event>,
  pub choices: Vec<Choice>,
  pub clock: u64,
  pub panics: Vec<(usize, String)>,
  pub lock_ops: u64,
  pub sched: Vec<usize>,
  pub diverged: bool,
}

struct Rt {
  threads: Vec<Th>,
  locks: Vec<LockSt>,
  n_cvs: usize,
  clock: u64,
  cur: usize,
  strategy: Strategy,
  rng: u64,
  choices: Vec<Choice>,
  events: Vec<Event>,
  seq: u64,
  steps: u64,
  budget: u64,
  aborted: Option<Outcome>,
  writer_pref: bool,
  log_locks: bool,
  diverged: bool,
  sched: Vec<usize>,
  done: Arc<Baton>,
}

static RT: ss::Mutex<Option<Rt>> = ss::Mutex::new(None);
thread_local! { static TID: Cell<Option<usize>> = Cell::new(None); }

struct AbortRun;

fn active() -> Option<usize> {
  TID.with(|t| t.get())
}

impl Rt {
  fn lock_available(&self, me: usize, lock: usize, mode: Mode) -> bool {
    let l = &self.locks[lock];
    match mode {
      Mode::W => l.writer.is_none() && l.readers.is_empty(),
      Mode::R => {
        if l.writer.is_some() {
          return false;
        }
        if self.writer_pref && !l.readers.is_empty() {
          // a writer that is waiting (blocked by current readers) blocks new readers
          let writer_waiting = self.threads.iter().enumerate().any(|(t, th)| {
            t != me && th.state == ThState::WantLock { lock, mode: Mode::W }
          });
          if writer_waiting {
            return false;
          }
        }
        true
      }
    }
  }
  fn enabled(&self, t: usize) -> bool {
    match &self.threads[t].state {
      ThState::Runnable => true,
      ThState::WantLock { lock, mode } => self.lock_available(t, *lock, *mode),
      ThState::CvWait { until, .. } => until.map(|u| u <= self.clock).unwrap_or(false),
      ThState::Sleeping { until } => *until <= self.clock,
      ThState::JoinWait { tid } => self.threads[*tid].state == ThState::Finished,
      ThState::Finished => false,
    }
  }
  fn next_rand(&mut self) -> u64 {
    // xorshift64*
    let mut x = self.rng;
    x ^= x >> 12;
    x ^= x << 25;
    x ^= x >> 27;
    self.rng = x;
    x.wrapping_mul(0x2545F4914F6CDD1D)
  }
  /// pick the next thread to run; None if the run is over (finished / deadlock / budget)
  fn pick(&mut self) -> Option<usize> {
    if self.aborted.is_some() {
      return None;
    }
    self.steps += 1;
    if self.steps > self.budget {
      self.aborted = Some(Outcome::StepBudget);
      return None;
    }
    loop {
      let en: Vec<usize> = (0..self.threads.len()).filter(|t| self.enabled(*t)).collect();
      if en.is_empty() {
        // advance virtual clock if somebody sleeps
        let wake = self
          .threads
          .iter()
          .filter_map(|th| match th.state {
            ThState::Sleeping { until } => Some(until),
            ThState::CvWait { until: Some(u), .. } => Some(u),
            _ => None,
          })
          .min();
        if let Some(w) = wake {
          self.clock = w;
          continue;
        }
        if self.threads.iter().all(|th| th.state == ThState::Finished) {
          self.aborted = Some(Outcome::AllFinished);
        } else {
          let stuck = self
            .threads
            .iter()
            .enumerate()
            .filter(|(_, th)| th.state != ThState::Finished)
            .map(|(t, th)| (t, self.describe(&th.state)))
            .collect();
          self.aborted = Some(Outcome::Deadlock(stuck));
        }
        return None;
      }
      let cur_idx = en.iter().position(|t| *t == self.cur);
      let k = self.choices.len();
      let chosen = match &self.strategy {
        Strategy::Random { .. } => (self.next_rand() % en.len() as u64) as usize,
        Strategy::Follow { tids } => {
          let want = tids.get(k).copied();
          match want.and_then(|t| en.iter().position(|e| *e == t)) {
            Some(i) => i,
            None => { if want.is_some() { self.diverged = true; } cur_idx.unwrap_or(0) }
          }
        }
        Strategy::Dfs { prefix } => {
          let rank = if k < prefix.len() { prefix[k].min(en.len() - 1) } else { 0 };
          // order: current first, then the others ascending
          let mut order: Vec<usize> = vec![];
          if let Some(ci) = cur_idx { order.push(ci); }
          for i in 0..en.len() { if Some(i) != cur_idx { order.push(i); } }
          self.choices.push(Choice { n_enabled: en.len(), chosen: rank, cur_idx });
          self.sched.push(en[order[rank]]);
          return Some(en[order[rank]]);
        }
      };
      self.choices.push(Choice { n_enabled: en.len(), chosen, cur_idx });
      self.sched.push(en[chosen]);
      return Some(en[chosen]);
    }
  }
  fn describe(&self, s: &ThState) -> String {
    match s {
      ThState::WantLock { lock, mode } => {
        let l = &self.locks[*lock];
        format!("blocked {:?} on lock#{} [{}] held by w={:?} r={:?}", mode, lock, l.site, l.writer, l.readers)
      }
      ThState::CvWait { cv, .. } => format!("parked on condvar#{}", cv),
      other => format!("{:?}", other),
    }
  }
  fn ev(&mut self, tid: usize, what: String) {
    self.seq += 1;
    self.events.push(Event { seq: self.seq, tid, clock: self.clock, what });
  }
}

/// The calling logical thread `me` has already updated its own state under the RT lock.
/// Hands the baton to the next thread and blocks until `me` is chosen again.
fn reschedule(mut g: ss::MutexGuard<'static, Option<Rt>>, me: usize) {
  let rt = g.as_mut().unwrap();
  rt.threads[me].steps += 1;
  match rt.pick() {
    Some(next) => {
      rt.cur = next;
      if next == me {
        return;
      }
      let nb = rt.threads[next].baton.clone();
      let mb = rt.threads[me].baton.clone();
      drop(g);
      nb.give();
      mb.take();
    }
    None => {
      // run over: wake everybody so they can unwind, signal the controller
      abort_all(rt);
      let finished = rt.threads[me].state == ThState::Finished;
      drop(g);
      if !finished {
        panic::resume_unwind(Box::new(AbortRun));
      }
      return;
    }
  }
  // woken up: check for abort
  let g = RT.lock().unwrap();
  let rt = g.as_ref().unwrap();
  if rt.aborted.is_some() && rt.threads[me].state != ThState::Finished {
    drop(g);
    panic::resume_unwind(Box::new(AbortRun));
  }
}

fn abort_all(rt: &mut Rt) {
  for th in rt.threads.iter() {
    if th.state != ThState::Finished {
      th.baton.give();
    }
  }
  rt.done.give();
}

fn with_rt<R>(f: impl FnOnce(&mut Rt) -> R) -> R {
  let mut g = RT.lock().unwrap();
  f(g.as_mut().unwrap())
}

fn aborted_now() -> bool {
  let g = RT.lock().unwrap();
  g.as_ref().map(|r| r.aborted.is_some()).unwrap_or(true)
}

// ---------------------------------------------------------------- public run API

pub struct Config {
  pub strategy: Strategy,
  pub budget: u64,
  pub writer_pref: bool,
  pub log_locks: bool,
}

static RUN_GATE: ss::Mutex<()> = ss::Mutex::new(());

pub fn run<F: FnOnce() + Send + 'static>(cfg: Config, f: F) -> RunResult {
  let _gate = RUN_GATE.lock().unwrap_or_else(|e| e.into_inner());
  let done = Baton::new();
  let seed = if let Strategy::Random { seed } = &cfg.strategy { *seed | 1 } else { 1 };
  {
    let mut g = RT.lock().unwrap();
    *g = Some(Rt {
      threads: vec![],
      locks: vec![],
      n_cvs: 0,
      clock: 0,
      cur: 0,
      strategy: cfg.strategy,
      rng: seed.wrapping_mul(0x9E3779B97F4A7C15) | 1,
      choices: vec![],
      events: vec![],
      seq: 0,
      steps: 0,
      budget: cfg.budget,
      aborted: None,
      writer_pref: cfg.writer_pref,
      log_locks: cfg.log_locks,
      diverged: false,
      sched: vec![],
      done: done.clone(),
    });
  }
  let _ = spawn_logical(f, true);
  done.take();
  // wait for all OS threads of this run to unwind.  They are JOINED, never detached: dropping a JoinHandle calls
  // pthread_detach, which in glibc races with the exit of the thread itself (the TCB can be unmapped between the two
  // accesses of pthread_detach when the stack cache is full) - seen once as a segfault of the harness in ~10^8 spawns.
  loop {
    let h = OS_HANDLES.lock().unwrap_or_else(|e| e.into_inner()).pop();
    match h {
      Some(h) => {
        let _ = h.join();
      }
      None => {
        if OS_LIVE.load(ss::atomic::Ordering::SeqCst) == 0 {
          break;
        }
        std::thread::yield_now();
      }
    }
  }
  let rt = RT.lock().unwrap().take().unwrap();
  RunResult {
    outcome: rt.aborted.clone().unwrap_or(Outcome::AllFinished),
    events: rt.events,
    choices: rt.choices,
    clock: rt.clock,
    panics: rt.threads.iter().enumerate().filter_map(|(t, th)| th.panicked.clone().map(|p| (t, p))).collect(),
    lock_ops: rt.steps,
    sched: rt.sched,
    diverged: rt.diverged,
  }
}

static OS_LIVE: ss::atomic::AtomicUsize = ss::atomic::AtomicUsize::new(0);
static OS_HANDLES: ss::Mutex<Vec<std::thread::JoinHandle<()>>> = ss::Mutex::new(Vec::new());

fn spawn_logical<F: FnOnce() + Send + 'static>(f: F, first: bool) -> usize {
  let baton = Baton::new();
  let tid = with_rt(|rt| {
    rt.threads.push(Th { state: ThState::Runnable, baton: baton.clone(), steps: 0, panicked: None });
    rt.threads.len() - 1
  });
  OS_LIVE.fetch_add(1, ss::atomic::Ordering::SeqCst);
  // (the body is kept in a shared cell so that a failed OS-level spawn - EAGAIN / ENOMEM on a loaded machine - can be retried)
  let body: Arc<ss::Mutex<Option<Box<dyn FnOnce() + Send>>>> = Arc::new(ss::Mutex::new(Some(Box::new(move || {
      TID.with(|t| t.set(Some(tid)));
      if !first {
        baton.take();
      }
      let r = if aborted_now() {
        Ok(())
      } else {
        panic::catch_unwind(AssertUnwindSafe(f))
      };
      let mut g = RT.lock().unwrap();
      if let Some(rt) = g.as_mut() {
        if let Err(p) = r {
          if !p.is::<AbortRun>() {
            let msg = p
              .downcast_ref::<&str>()
              .map(|s| s.to_string())
              .or_else(|| p.downcast_ref::<String>().cloned())
              .unwrap_or_else(|| "panic".into());
            rt.threads[tid].panicked = Some(msg.clone());
            rt.ev(tid, format!("PANIC {}", msg));
          }
        }
        rt.threads[tid].state = ThState::Finished;
        if rt.aborted.is_none() {
          rt.ev(tid, "{\"ev\":\"exit\"}".to_string());
        }
        if rt.aborted.is_none() {
          // hand over
          match rt.pick() {
            Some(next) => {
              rt.cur = next;
              let nb = rt.threads[next].baton.clone();
              drop(g);
              nb.give();
            }
            None => {
              abort_all(rt);
              drop(g);
            }
          }
        } else {
          drop(g);
        }
      }
      TID.with(|t| t.set(None));
      OS_LIVE.fetch_sub(1, ss::atomic::Ordering::SeqCst);
    }))));
  let mut tries = 0;
  let h = loop {
    let b = body.clone();
    let r = std::thread::Builder::new().stack_size(16 << 20).spawn(move || {
      let f = b.lock().unwrap_or_else(|e| e.into_inner()).take();
      if let Some(f) = f {
        f()
      }
    });
    match r {
      Ok(h) => break h,
      Err(e) => {
        tries += 1;
        if tries > 1200 {
          panic!("cannot spawn an OS thread for a logical thread: {e}");
        }
        std::thread::sleep(Duration::from_millis(50));
      }
    }
  };
  LAST_SPAWNED.with(|t| *t.borrow_mut() = Some(h.thread().clone()));
  OS_HANDLES.lock().unwrap_or_else(|e| e.into_inner()).push(h);
  tid
}
thread_local! {
  /// the std Thread handle of the logical thread this OS thread spawned last (every logical thread IS an OS thread, so
  /// `std::thread::current().id()` inside it equals `JoinHandle::thread().id()` outside)
  static LAST_SPAWNED: std::cell::RefCell<Option<std::thread::Thread>> = const { std::cell::RefCell::new(None) };
}

/// harness-visible event (totally ordered: only one logical thread runs at a time)
pub fn emit(what: impl Into<String>) {
  if let Some(me) = active() {
    with_rt(|rt| rt.ev(me, what.into()));
  }
}
pub fn now() -> u64 {
  if active().is_some() {
    with_rt(|rt| rt.clock)
  } else {
    0
  }
}
pub fn current_tid() -> Option<usize> {
  active()
}

// ---------------------------------------------------------------- thread facade

pub struct JoinHandle<T> {
  real: Option<std::thread::JoinHandle<T>>,
  logical: Option<(usize, Arc<ss::Mutex<Option<std::thread::Result<T>>>>)>,
  thread: std::thread::Thread,
}
impl<T> JoinHandle<T> {
  pub fn thread(&self) -> &std::thread::Thread {
    &self.thread
  }
  pub fn is_finished(&self) -> bool {
    match (&self.real, &self.logical) {
      (Some(r), _) => r.is_finished(),
      (_, Some((_, slot))) => slot.lock().unwrap().is_some(),
      _ => true,
    }
  }
  pub fn join(self) -> std::thread::Result<T> {
    if let Some(r) = self.real {
      return r.join();
    }
    let (tid, slot) = self.logical.unwrap();
    let me = active().expect("join of logical thread outside run");
    let mut g = RT.lock().unwrap();
    g.as_mut().unwrap().threads[me].state = ThState::JoinWait { tid };
    g.as_mut().unwrap().ev(me, format!("join t{}", tid));
    reschedule(g, me);
    with_rt(|rt| rt.threads[me].state = ThState::Runnable);
    let r = slot.lock().unwrap().take();
    r.unwrap_or_else(|| Err(Box::new("thread aborted")))
  }
}

pub fn spawn<F, T>(f: F) -> JoinHandle<T>
where
  F: FnOnce() -> T + Send + 'static,
  T: Send + 'static,
{
  match active() {
    None => {
      let h = std::thread::spawn(f);
      let thread = h.thread().clone();
      JoinHandle { real: Some(h), logical: None, thread }
    }
    Some(me) => {
      let slot = Arc::new(ss::Mutex::new(None));
      let slot2 = slot.clone();
      let tid = spawn_logical(
        move || {
          let r = f();
          *slot2.lock().unwrap() = Some(Ok(r));
        },
        false,
      );
      let thread = LAST_SPAWNED.with(|t| t.borrow().clone()).expect("spawned thread handle");
      with_rt(|rt| rt.ev(me, format!("{{\"ev\":\"spawn\",\"v\":{}}}", tid)));
      // schedule point after spawn
      let g = RT.lock().unwrap();
      reschedule(g, me);
      JoinHandle { real: None, logical: Some((tid, slot)), thread }
    }
  }
}

pub fn sleep(d: Duration) {
  match active() {
    None => std::thread::sleep(d),
    Some(me) => {
      let mut g = RT.lock().unwrap();
      let rt = g.as_mut().unwrap();
      let until = rt.clock + d.as_nanos() as u64;
      rt.threads[me].state = ThState::Sleeping { until };
      reschedule(g, me);
      with_rt(|rt| rt.threads[me].state = ThState::Runnable);
    }
  }
}

/// an operation on an atomic: a schedule point (the operation itself is performed by the caller right after)
pub fn atomic_point() {
  if let Some(me) = active() {
    let abort = {
      let g = RT.lock().unwrap_or_else(|e| e.into_inner());
      g.as_ref().map(|r| r.aborted.is_some()).unwrap_or(true)
    };
    if !abort && !std::thread::panicking() {
      let g = RT.lock().unwrap();
      reschedule(g, me);
    }
  }
}

pub fn yield_now() {
  match active() {
    None => std::thread::yield_now(),
    Some(me) => {
      let g = RT.lock().unwrap();
      reschedule(g, me);
    }
  }
}

// ---------------------------------------------------------------- lock facade

fn register_lock(site: &'static Location<'static>, is_mutex: bool) -> usize {
  with_rt(|rt| {
    rt.locks.push(LockSt {
      writer: None,
      readers: vec![],
      site: format!("{}:{}", site.file(), site.line()),
      is_mutex,
    });
    rt.locks.len() - 1
  })
}

/// with the lock log on, a lock created inside a run is registered (and announced) at creation, so that the log tells
/// the creation order of locks made at the same source line (e.g. the slots of one Observer)
fn created(site: &'static Location<'static>, is_mutex: bool) -> Option<usize> {
  let me = active()?;
  let on = with_rt(|rt| rt.log_locks);
  if !on {
    return None;
  }
  let i = register_lock(site, is_mutex);
  with_rt(|rt| {
    let s = rt.locks[i].site.clone();
    rt.ev(me, format!("{{\"ev\":\"lk\",\"op\":\"new\",\"lock\":{},\"site\":\"{}\"}}", i, s));
  });
  Some(i)
}

struct LockId {
  site: &'static Location<'static>,
  // (run-local id); registered lazily on first use inside a run
  id: ss::Mutex<Option<usize>>,
}
impl LockId {
  fn get(&self, is_mutex: bool) -> usize {
    let mut g = self.id.lock().unwrap();
    if let Some(i) = *g {
      return i;
    }
    let i = register_lock(self.site, is_mutex);
    *g = Some(i);
    i
  }
}

fn acquire(me: usize, lock: usize, mode: Mode) {
  let mut g = RT.lock().unwrap();
  let rt = g.as_mut().unwrap();
  rt.threads[me].state = ThState::WantLock { lock, mode };
  reschedule(g, me);
  with_rt(|rt| {
    debug_assert!(rt.lock_available(me, lock, mode));
    match mode {
      Mode::W => rt.locks[lock].writer = Some(me),
      Mode::R => rt.locks[lock].readers.push(me),
    }
    rt.threads[me].state = ThState::Runnable;
    if rt.log_locks {
      let site = rt.locks[lock].site.clone();
      rt.ev(me, format!("{{\"ev\":\"lk\",\"op\":\"acq\",\"m\":\"{:?}\",\"lock\":{},\"site\":\"{}\"}}", mode, lock, site));
    }
  });
}

fn release(me: usize, lock: usize, mode: Mode) {
  let mut g = match RT.lock() {
    Ok(g) => g,
    Err(e) => e.into_inner(),
  };
  if let Some(rt) = g.as_mut() {
    match mode {
      Mode::W => rt.locks[lock].writer = None,
      Mode::R => {
        if let Some(p) = rt.locks[lock].readers.iter().position(|t| *t == me) {
          rt.locks[lock].readers.remove(p);
        }
      }
    }
    if rt.log_locks {
      rt.ev(me, format!("{{\"ev\":\"lk\",\"op\":\"rel\",\"m\":\"{:?}\",\"lock\":{}}}", mode, lock));
    }
  }
}

/// a guard is about to be dropped: with try_* in play, let other threads run while the lock is still held
fn before_release(me: usize) {
  if TRY_USED.load(ss::atomic::Ordering::SeqCst) && !std::thread::panicking() {
    let g = match RT.lock() {
      Ok(g) => g,
      Err(_) => return,
    };
    if g.as_ref().map(|r| r.aborted.is_none() && r.threads[me].state == ThState::Runnable).unwrap_or(false) {
      reschedule(g, me);
    }
  }
}

pub struct RwLock<T> {
  inner: ss::RwLock<T>,
  id: LockId,
}
pub struct RwLockReadGuard<'a, T> {
  g: Option<ss::RwLockReadGuard<'a, T>>,
  rel: Option<(usize, usize)>,
}
pub struct RwLockWriteGuard<'a, T> {
  g: Option<ss::RwLockWriteGuard<'a, T>>,
  rel: Option<(usize, usize)>,
}
impl<T> RwLock<T> {
  #[track_caller]
  pub fn new(t: T) -> RwLock<T> {
    let site = Location::caller();
    RwLock { inner: ss::RwLock::new(t), id: LockId { site, id: ss::Mutex::new(created(site, false)) } }
  }
  pub fn read(&self) -> LockResult<RwLockReadGuard<'_, T>> {
    match active() {
      None => match self.inner.read() {
        Ok(g) => Ok(RwLockReadGuard { g: Some(g), rel: None }),
        Err(e) => Err(PoisonError::new(RwLockReadGuard { g: Some(e.into_inner()), rel: None })),
      },
      Some(me) => {
        let id = self.id.get(false);
        acquire(me, id, Mode::R);
        match self.inner.try_read() {
          Ok(g) => Ok(RwLockReadGuard { g: Some(g), rel: Some((me, id)) }),
          Err(TryLockError::Poisoned(e)) => {
            Err(PoisonError::new(RwLockReadGuard { g: Some(e.into_inner()), rel: Some((me, id)) }))
          }
          Err(TryLockError::WouldBlock) => panic!("vstd model/real lock mismatch (read)"),
        }
      }
    }
  }
  pub fn write(&self) -> LockResult<RwLockWriteGuard<'_, T>> {
    match active() {
      None => match self.inner.write() {
        Ok(g) => Ok(RwLockWriteGuard { g: Some(g), rel: None }),
        Err(e) => Err(PoisonError::new(RwLockWriteGuard { g: Some(e.into_inner()), rel: None })),
      },
      Some(me) => {
        let id = self.id.get(false);
        acquire(me, id, Mode::W);
        match self.inner.try_write() {
          Ok(g) => Ok(RwLockWriteGuard { g: Some(g), rel: Some((me, id)) }),
          Err(TryLockError::Poisoned(e)) => {
            Err(PoisonError::new(RwLockWriteGuard { g: Some(e.into_inner()), rel: Some((me, id)) }))
          }
          Err(TryLockError::WouldBlock) => panic!("vstd model/real lock mismatch (write)"),
        }
      }
    }
  }
}
/// non-blocking acquisition: a schedule point first (so that other threads may get in), then the lock is taken iff the
/// model says it is free; never blocks
/// set once the code under test uses a try_* operation in this process: from then on a lock *release* is a schedule point
/// too, because only a non-blocking attempt can observe for how long a lock is held
static TRY_USED: ss::atomic::AtomicBool = ss::atomic::AtomicBool::new(false);
fn try_acquire(me: usize, lock: usize, mode: Mode) -> bool {
  TRY_USED.store(true, ss::atomic::Ordering::SeqCst);
  {
    let g = RT.lock().unwrap();
    reschedule(g, me);
  }
  with_rt(|rt| {
    // a waiting writer does not make try_read fail in std's futex implementation; only actual holders count
    let l = &rt.locks[lock];
    let free = match mode {
      Mode::W => l.writer.is_none() && l.readers.is_empty(),
      Mode::R => l.writer.is_none(),
    };
    if free {
      match mode {
        Mode::W => rt.locks[lock].writer = Some(me),
        Mode::R => rt.locks[lock].readers.push(me),
      }
      if rt.log_locks {
        let site = rt.locks[lock].site.clone();
        rt.ev(me, format!("{{\"ev\":\"lk\",\"op\":\"acq\",\"m\":\"{:?}\",\"lock\":{},\"site\":\"{}\"}}", mode, lock, site));
      }
    }
    free
  })
}
impl<T> RwLock<T> {
  pub fn try_read(&self) -> std::sync::TryLockResult<RwLockReadGuard<'_, T>> {
    match active() {
      None => match self.inner.try_read() {
        Ok(g) => Ok(RwLockReadGuard { g: Some(g), rel: None }),
        Err(TryLockError::WouldBlock) => Err(TryLockError::WouldBlock),
        Err(TryLockError::Poisoned(e)) => Err(TryLockError::Poisoned(PoisonError::new(RwLockReadGuard { g: Some(e.into_inner()), rel: None }))),
      },
      Some(me) => {
        let id = self.id.get(false);
        if !try_acquire(me, id, Mode::R) {
          return Err(TryLockError::WouldBlock);
        }
        match self.inner.try_read() {
          Ok(g) => Ok(RwLockReadGuard { g: Some(g), rel: Some((me, id)) }),
          Err(TryLockError::Poisoned(e)) => Err(TryLockError::Poisoned(PoisonError::new(RwLockReadGuard { g: Some(e.into_inner()), rel: Some((me, id)) }))),
          Err(TryLockError::WouldBlock) => panic!("vstd model/real lock mismatch (try_read)"),
        }
      }
    }
  }
  pub fn try_write(&self) -> std::sync::TryLockResult<RwLockWriteGuard<'_, T>> {
    match active() {
      None => match self.inner.try_write() {
        Ok(g) => Ok(RwLockWriteGuard { g: Some(g), rel: None }),
        Err(TryLockError::WouldBlock) => Err(TryLockError::WouldBlock),
        Err(TryLockError::Poisoned(e)) => Err(TryLockError::Poisoned(PoisonError::new(RwLockWriteGuard { g: Some(e.into_inner()), rel: None }))),
      },
      Some(me) => {
        let id = self.id.get(false);
        if !try_acquire(me, id, Mode::W) {
          return Err(TryLockError::WouldBlock);
        }
        match self.inner.try_write() {
          Ok(g) => Ok(RwLockWriteGuard { g: Some(g), rel: Some((me, id)) }),
          Err(TryLockError::Poisoned(e)) => Err(TryLockError::Poisoned(PoisonError::new(RwLockWriteGuard { g: Some(e.into_inner()), rel: Some((me, id)) }))),
          Err(TryLockError::WouldBlock) => panic!("vstd model/real lock mismatch (try_write)"),
        }
      }
    }
  }
}
impl<T> Mutex<T> {
  pub fn try_lock(&self) -> std::sync::TryLockResult<MutexGuard<'_, T>> {
    match active() {
      None => match self.inner.try_lock() {
        Ok(g) => Ok(MutexGuard { g: Some(g), m: self, rel: None }),
        Err(TryLockError::WouldBlock) => Err(TryLockError::WouldBlock),
        Err(TryLockError::Poisoned(e)) => Err(TryLockError::Poisoned(PoisonError::new(MutexGuard { g: Some(e.into_inner()), m: self, rel: None }))),
      },
      Some(me) => {
        let id = self.id.get(true);
        if !try_acquire(me, id, Mode::W) {
          return Err(TryLockError::WouldBlock);
        }
        match self.take_real(me, id) {
          Ok(g) => Ok(g),
          Err(e) => Err(TryLockError::Poisoned(e)),
        }
      }
    }
  }
}
impl<'a, T> std::ops::Deref for RwLockReadGuard<'a, T> {
  type Target = T;
  fn deref(&self) -> &T {
    self.g.as_ref().unwrap()
  }
}
impl<'a, T> Drop for RwLockReadGuard<'a, T> {
  fn drop(&mut self) {
    if let Some((me, _)) = self.rel {
      before_release(me);
    }
    self.g.take();
    if let Some((me, id)) = self.rel {
      release(me, id, Mode::R);
    }
  }
}
impl<'a, T> std::ops::Deref for RwLockWriteGuard<'a, T> {
  type Target = T;
  fn deref(&self) -> &T {
    self.g.as_ref().unwrap()
  }
}
impl<'a, T> std::ops::DerefMut for RwLockWriteGuard<'a, T> {
  fn deref_mut(&mut self) -> &mut T {
    self.g.as_mut().unwrap()
  }
}
impl<'a, T> Drop for RwLockWriteGuard<'a, T> {
  fn drop(&mut self) {
    if let Some((me, _)) = self.rel {
      before_release(me);
    }
    self.g.take();
    if let Some((me, id)) = self.rel {
      release(me, id, Mode::W);
    }
  }
}

pub struct Mutex<T> {
  inner: ss::Mutex<T>,
  id: LockId,
}
pub struct MutexGuard<'a, T> {
  g: Option<ss::MutexGuard<'a, T>>,
  m: &'a Mutex<T>,
  rel: Option<(usize, usize)>,
}
impl<T> Mutex<T> {
  #[track_caller]
  pub fn new(t: T) -> Mutex<T> {
    let site = Location::caller();
    Mutex { inner: ss::Mutex::new(t), id: LockId { site, id: ss::Mutex::new(created(site, true)) } }
  }
  pub fn lock(&self) -> LockResult<MutexGuard<'_, T>> {
    match active() {
      None => match self.inner.lock() {
        Ok(g) => Ok(MutexGuard { g: Some(g), m: self, rel: None }),
        Err(e) => Err(PoisonError::new(MutexGuard { g: Some(e.into_inner()), m: self, rel: None })),
      },
      Some(me) => {
        let id = self.id.get(true);
        acquire(me, id, Mode::W);
        self.take_real(me, id)
      }
    }
  }
  fn take_real(&self, me: usize, id: usize) -> LockResult<MutexGuard<'_, T>> {
    match self.inner.try_lock() {
      Ok(g) => Ok(MutexGuard { g: Some(g), m: self, rel: Some((me, id)) }),
      Err(TryLockError::Poisoned(e)) => {
        Err(PoisonError::new(MutexGuard { g: Some(e.into_inner()), m: self, rel: Some((me, id)) }))
      }
      Err(TryLockError::WouldBlock) => panic!("vstd model/real lock mismatch (mutex)"),
    }
  }
}
impl<'a, T> std::ops::Deref for MutexGuard<'a, T> {
  type Target = T;
  fn deref(&self) -> &T {
    self.g.as_ref().unwrap()
  }
}
impl<'a, T> std::ops::DerefMut for MutexGuard<'a, T> {
  fn deref_mut(&mut self) -> &mut T {
    self.g.as_mut().unwrap()
  }
}
impl<'a, T> Drop for MutexGuard<'a, T> {
  fn drop(&mut self) {
    self.g.take();
    if let Some((me, id)) = self.rel {
      release(me, id, Mode::W);
    }
  }
}

/// facade twin of std::sync::WaitTimeoutResult
#[derive(Debug, PartialEq, Eq, Copy, Clone)]
pub struct WaitTimeoutResult(bool);
impl WaitTimeoutResult {
  pub fn timed_out(&self) -> bool {
    self.0
  }
}
pub struct Condvar {
  inner: ss::Condvar,
  id: ss::Mutex<Option<usize>>,
}
impl Condvar {
  pub fn new() -> Condvar {
    Condvar { inner: ss::Condvar::new(), id: ss::Mutex::new(None) }
  }
  fn cv_id(&self) -> usize {
    let mut g = self.id.lock().unwrap();
    if let Some(i) = *g {
      return i;
    }
    let i = with_rt(|rt| {
      rt.n_cvs += 1;
      rt.n_cvs - 1
    });
    *g = Some(i);
    i
  }
  pub fn wait<'a, T>(&self, guard: MutexGuard<'a, T>) -> LockResult<MutexGuard<'a, T>> {
    match self.wait_deadline(guard, None) {
      Ok((g, _)) => Ok(g),
      Err(e) => Err(PoisonError::new(e.into_inner().0)),
    }
  }
  /// wait with an optional (virtual-time) timeout; the bool is "timed out"
  fn wait_deadline<'a, T>(&self, mut guard: MutexGuard<'a, T>, dur: Option<Duration>) -> LockResult<(MutexGuard<'a, T>, bool)> {
    match guard.rel {
      None => {
        let m = guard.m;
        let real = guard.g.take().unwrap();
        std::mem::forget(guard);
        match dur {
          None => match self.inner.wait(real) {
            Ok(g) => Ok((MutexGuard { g: Some(g), m, rel: None }, false)),
            Err(e) => Err(PoisonError::new((MutexGuard { g: Some(e.into_inner()), m, rel: None }, false))),
          },
          Some(d) => match self.inner.wait_timeout(real, d) {
            Ok((g, t)) => Ok((MutexGuard { g: Some(g), m, rel: None }, t.timed_out())),
            Err(e) => {
              let (g, t) = e.into_inner();
              Err(PoisonError::new((MutexGuard { g: Some(g), m, rel: None }, t.timed_out())))
            }
          },
        }
      }
      Some((me, lock)) => {
        let cv = self.cv_id();
        let m = guard.m;
        // release the real + model mutex, park on the condvar
        guard.g.take();
        guard.rel = None;
        drop(guard);
        let mut g = RT.lock().unwrap();
        let rt = g.as_mut().unwrap();
        rt.locks[lock].writer = None;
        let until = dur.map(|d| rt.clock + d.as_nanos() as u64);
        rt.threads[me].state = ThState::CvWait { cv, lock, until };
        if rt.log_locks {
          rt.ev(me, format!("{{\"ev\":\"lk\",\"op\":\"cvwait\",\"cv\":{},\"lock\":{}}}", cv, lock));
        }
        reschedule(g, me);
        // either a notifier turned us into WantLock (and the lock is available), or the deadline passed
        let timed_out = with_rt(|rt| matches!(rt.threads[me].state, ThState::CvWait { .. }));
        if timed_out {
          // re-acquire the mutex like any other locker
          acquire(me, lock, Mode::W);
        } else {
          with_rt(|rt| {
            rt.locks[lock].writer = Some(me);
            rt.threads[me].state = ThState::Runnable;
            if rt.log_locks {
              rt.ev(me, format!("{{\"ev\":\"lk\",\"op\":\"cvwake\",\"cv\":{},\"lock\":{}}}", cv, lock));
            }
          });
        }
        match m.take_real(me, lock) {
          Ok(g) => Ok((g, timed_out)),
          Err(e) => Err(PoisonError::new((e.into_inner(), timed_out))),
        }
      }
    }
  }
  pub fn wait_timeout<'a, T>(&self, guard: MutexGuard<'a, T>, dur: Duration) -> LockResult<(MutexGuard<'a, T>, WaitTimeoutResult)> {
    match self.wait_deadline(guard, Some(dur)) {
      Ok((g, t)) => Ok((g, WaitTimeoutResult(t))),
      Err(e) => {
        let (g, t) = e.into_inner();
        Err(PoisonError::new((g, WaitTimeoutResult(t))))
      }
    }
  }
  pub fn wait_timeout_while<'a, T, F>(&self, mut guard: MutexGuard<'a, T>, dur: Duration, mut condition: F) -> LockResult<(MutexGuard<'a, T>, WaitTimeoutResult)>
  where
    F: FnMut(&mut T) -> bool,
  {
    let start = now();
    loop {
      if !condition(&mut *guard) {
        return Ok((guard, WaitTimeoutResult(false)));
      }
      let elapsed = Duration::from_nanos(now().saturating_sub(start));
      let left = match dur.checked_sub(elapsed) {
        Some(l) if !l.is_zero() => l,
        _ => return Ok((guard, WaitTimeoutResult(true))),
      };
      guard = match self.wait_deadline(guard, Some(left)) {
        Ok((g, _)) => g,
        Err(e) => {
          let (g, t) = e.into_inner();
          return Err(PoisonError::new((g, WaitTimeoutResult(t))));
        }
      };
    }
  }
  pub fn wait_while<'a, T, F>(&self, mut guard: MutexGuard<'a, T>, mut condition: F) -> LockResult<MutexGuard<'a, T>>
  where
    F: FnMut(&mut T) -> bool,
  {
    while condition(&mut *guard) {
      guard = match self.wait(guard) {
        Ok(g) => g,
        Err(e) => return Err(e),
      };
    }
    Ok(guard)
  }
  fn notify(&self, all: bool) {
    match active() {
      None => {
        if all {
          self.inner.notify_all()
        } else {
          self.inner.notify_one()
        }
      }
      Some(me) => {
        let cv = self.cv_id();
        let mut g = RT.lock().unwrap();
        let rt = g.as_mut().unwrap();
        let waiters: Vec<usize> = (0..rt.threads.len())
          .filter(|t| matches!(rt.threads[*t].state, ThState::CvWait { cv: c, .. } if c == cv))
          .collect();
        let woken: Vec<usize> = if all || waiters.len() <= 1 {
          waiters
        } else {
          let k = (rt.next_rand() % waiters.len() as u64) as usize;
          vec![waiters[k]]
        };
        for t in woken.iter() {
          if let ThState::CvWait { lock, .. } = rt.threads[*t].state {
            rt.threads[*t].state = ThState::WantLock { lock, mode: Mode::W };
          }
        }
        if rt.log_locks {
          rt.ev(me, format!("{{\"ev\":\"lk\",\"op\":\"notify\",\"cv\":{}}}", cv));
        }
        reschedule(g, me);
      }
    }
  }
  pub fn notify_one(&self) {
    self.notify(false)
  }
  pub fn notify_all(&self) {
    self.notify(true)
  }
}
