//! C17, "any emitted item": pipelines whose ITEMS are reference-counted tokens.
//! The main interpreter (term.rs) uses plain integers as items; here a small generic interpreter builds the operators that
//! can hold on to items (buffers, latest-value slots, accumulators, queues, subjects) over items that carry a token, runs
//! source -> operator -> subscriber to each of the three ways of ending, drops every handle, and counts the tokens that are
//! still alive.  One ndjson line per (operator, ending) is printed; TLC judges them with spec/TokTrace.tla.
use another_rxrust::prelude::*;
use arx_vstd::rt::{self, Config, Strategy};
use std::sync::{Arc, Mutex, Weak};
use std::time::Duration;

#[derive(Clone)]
pub struct Tk {
  pub id: i64,
  _t: Arc<()>,
}
impl PartialEq for Tk {
  fn eq(&self, o: &Tk) -> bool {
    self.id == o.id
  }
}
impl PartialOrd for Tk {
  fn partial_cmp(&self, o: &Tk) -> Option<std::cmp::Ordering> {
    self.id.partial_cmp(&o.id)
  }
}
impl std::fmt::Debug for Tk {
  fn fmt(&self, f: &mut std::fmt::Formatter<'_>) -> std::fmt::Result {
    write!(f, "Tk({})", self.id)
  }
}
type O = Observable<'static, Tk>;

pub const OPS: &[&str] = &[
  "identity", "take_last2", "skip_last2", "buffer2", "sample", "distinct", "scan", "reduce", "last", "first", "min", "max", "zip", "combine_latest",
  "start_with", "default_if_empty", "take2", "skip1", "element_at1", "merge", "concat", "amb", "window2", "group_by", "flat_map_just", "materialize",
  "retry", "resume", "tap", "delay", "debounce", "observe_on", "timeout", "replay_subject", "behavior_subject", "async_subject", "publish", "replay",
  "ref_count", "take_until", "skip_until", "sequence_equal", "switch_on_next", "observe_on_burst", "observe_on_take1", "delay_take1",
];

/// the operator under test over the hot source `src`; `aux` is a second hot source (trigger / other input), `mk` makes fresh items
fn build(op: &str, src: &O, aux: &O, mk: &Arc<dyn Fn(i64) -> Tk + Send + Sync>) -> O {
  let mk2 = mk.clone();
  match op {
    "identity" => src.clone(),
    "take_last2" => src.take_last(2),
    "skip_last2" => src.skip_last(2),
    "buffer2" => src.buffer_with_count(2).flat_map(|v| observables::from_iter(v.into_iter())),
    "sample" => src.sample(aux.clone()),
    "distinct" => src.distinct_until_changed(),
    "scan" => src.scan(|(_a, b)| b),
    "reduce" => src.reduce(|(_a, b)| b),
    "last" => src.last(),
    "first" => src.first(),
    "min" => src.min(),
    "max" => src.max(),
    "zip" => src.zip(&[aux.clone()]).map(|v| v[0].clone()),
    "combine_latest" => src.combine_latest(&[aux.clone()], |v| v[0].clone()),
    "start_with" => src.start_with(vec![mk2(901), mk2(902)].into_iter()),
    "default_if_empty" => src.default_if_empty(mk2(903)),
    "take2" => src.take(2),
    "skip1" => src.skip(1),
    "element_at1" => src.element_at(1),
    "merge" => src.merge(&[aux.clone()]),
    "concat" => src.concat(&[aux.clone()]),
    "amb" => src.amb(&[aux.clone()]),
    "window2" => src.window_with_count(2).flat_map(|w| w),
    "group_by" => src.group_by(|x: Tk| x.id % 2).flat_map(|g| g),
    "flat_map_just" => src.flat_map(|x| observables::just(x)),
    "materialize" => src.materialize().dematerialize(),
    "retry" => src.retry(2),
    "resume" => {
      let a = aux.clone();
      src.on_error_resume_next(move |_| a.clone())
    }
    "tap" => src.tap(|_| {}, |_| {}, || {}),
    "delay" => src.delay(Duration::from_millis(10)),
    "debounce" => src.debounce(Duration::from_millis(50), schedulers::new_thread_scheduler()),
    "observe_on" | "observe_on_burst" => src.observe_on(schedulers::new_thread_scheduler()),
    // the stream ends while later items are still in the scheduler's queue
    "observe_on_take1" => src.observe_on(schedulers::new_thread_scheduler()).take(1),
    "delay_take1" => src.delay(Duration::from_millis(10)).take(1),
    "timeout" => src.timeout(Duration::from_millis(500), schedulers::new_thread_scheduler()),
    "take_until" => src.take_until(aux.clone()),
    "skip_until" => src.skip_until(aux.clone()),
    "sequence_equal" => src.sequence_equal(&[aux.clone()]).flat_map(move |_b| observables::just(mk2(904))),
    "switch_on_next" => src.switch_on_next(aux.clone()),
    _ => src.clone(),
  }
}

pub struct TokRun {
  pub op: String,
  pub ending: String,
  pub emitted: usize,
  pub delivered: usize,
  pub live: usize,
  pub fin: String,
}

/// one run: ending = "complete" | "error" | "unsub"
pub fn run_one(op: &str, ending: &str) -> TokRun {
  let weak: Arc<Mutex<Vec<Weak<()>>>> = Default::default();
  let delivered: Arc<Mutex<usize>> = Default::default();
  let (op2, ending2, weak2, delivered2) = (op.to_string(), ending.to_string(), weak.clone(), delivered.clone());
  let r = rt::run(Config { strategy: Strategy::Dfs { prefix: vec![] }, budget: 2_000_000, writer_pref: true, log_locks: false }, move || {
    let weak3 = weak2.clone();
    let mk: Arc<dyn Fn(i64) -> Tk + Send + Sync> = Arc::new(move |id| {
      let t = Arc::new(());
      weak3.lock().unwrap().push(Arc::downgrade(&t));
      Tk { id, _t: t }
    });
    // the hot source(s): a plain Subject, or the subject kind under test
    let src_plain = subjects::Subject::<Tk>::new();
    let aux = subjects::Subject::<Tk>::new();
    enum Src {
      Plain(subjects::Subject<'static, Tk>),
      Replay(subjects::ReplaySubject<'static, Tk>),
      Behavior(subjects::BehaviorSubject<'static, Tk>),
      Async(subjects::AsyncSubject<'static, Tk>),
    }
    let src = match op2.as_str() {
      "replay_subject" => Src::Replay(subjects::ReplaySubject::new()),
      "behavior_subject" => Src::Behavior(subjects::BehaviorSubject::new(mk(900))),
      "async_subject" => Src::Async(subjects::AsyncSubject::new()),
      _ => Src::Plain(src_plain.clone()),
    };
    let src_obs: O = match &src {
      Src::Plain(s) => s.observable(),
      Src::Replay(s) => s.observable(),
      Src::Behavior(s) => s.observable(),
      Src::Async(s) => s.observable(),
    };
    let next = |x: Tk| match &src {
      Src::Plain(s) => s.next(x),
      Src::Replay(s) => s.next(x),
      Src::Behavior(s) => s.next(x),
      Src::Async(s) => s.next(x),
    };
    let root: O = match op2.as_str() {
      "publish" => {
        let p = src_obs.publish();
        let o = p.observable();
        let _c = p.connect();
        o
      }
      "replay" => src_obs.replay().observable(),
      "ref_count" => src_obs.ref_count().observable(),
      _ => build(&op2, &src_obs, &aux.observable(), &mk),
    };
    let d = delivered2.clone();
    let sub = root.subscribe(
      move |_x| {
        *d.lock().unwrap() += 1;
      },
      |_e| {},
      || {},
    );
    // items: 1 1 2 3 into the source, interleaved with the second source
    for (i, id) in [1i64, 1, 2, 3].iter().enumerate() {
      next(mk(*id));
      if i == 1 {
        aux.next(mk(50));
      }
    }
    aux.next(mk(51));
    next(mk(4));
    if op2 == "debounce" || op2 == "observe_on" || op2 == "delay" || op2 == "timeout" {
      arx_vstd::thread::sleep(Duration::from_millis(120));
    }
    match ending2.as_str() {
      "complete" => {
        match &src {
          Src::Plain(s) => s.complete(),
          Src::Replay(s) => s.complete(),
          Src::Behavior(s) => s.complete(),
          Src::Async(s) => s.complete(),
        }
        aux.complete();
      }
      "error" => {
        let e = RxError::from_error(7i64);
        match &src {
          Src::Plain(s) => s.error(e.clone()),
          Src::Replay(s) => s.error(e.clone()),
          Src::Behavior(s) => s.error(e.clone()),
          Src::Async(s) => s.error(e.clone()),
        }
        aux.error(e);
      }
      _ => sub.unsubscribe(),
    }
    arx_vstd::thread::sleep(Duration::from_millis(700)); // every library thread gets the time to wind down
    // the caller drops its Observable and Subscription handles (and the sources)
    drop(sub);
    drop(root);
    drop(src_obs);
    drop(src);
    drop(src_plain);
    drop(aux);
    drop(mk);
  });
  let live = weak.lock().unwrap().iter().filter(|w| w.strong_count() > 0).count();
  let emitted = weak.lock().unwrap().len();
  let fin = match r.outcome {
    rt::Outcome::AllFinished => "ok",
    rt::Outcome::Deadlock(_) => "stuck",
    rt::Outcome::StepBudget => "budget",
  };
  let fin = if r.panics.is_empty() { fin } else { "panic" };
  let delivered = *delivered.lock().unwrap();
  TokRun { op: op.into(), ending: ending.into(), emitted, delivered, live, fin: fin.into() }
}
