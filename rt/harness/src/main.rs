//! Conformance harness: binds the TLA+ specifications under /verif/spec to the real crate (instrumented copy).
//!   seq-replay   spec -> impl: replay TLC-generated sequential cases, compare with the L1 prediction, write the
//!                traces of every disagreeing execution (and a sample of agreeing ones) for TLC trace validation
mod conc;
mod fuzz;
mod seq;
mod term;
mod tok;

use std::collections::BTreeMap;
use std::io::{BufRead, Write};

fn arg(name: &str) -> Option<String> {
  let a: Vec<String> = std::env::args().collect();
  a.iter().position(|x| x == name).and_then(|i| a.get(i + 1).cloned())
}

fn main() {
  let cmd = std::env::args().nth(1).unwrap_or_default();
  match cmd.as_str() {
    "seq-replay" => seq_replay(),
    "seq-one" => seq_one(),
    "seq-fuzz" => seq_fuzz(),
    "conc" => conc_explore(),
    "conc-one" => conc_one(),
    "tok-all" => tok_all(),
    _ => {
      eprintln!("usage: harness seq-replay|seq-one ...");
      std::process::exit(2);
    }
  }
}

/// re-run one case (replay file) and print what the crate does
fn seq_one() {
  let path = arg("--case").expect("--case");
  let text = std::fs::read_to_string(path).unwrap();
  let v: serde_json::Value = serde_json::from_str(&text).unwrap();
  let case: seq::Case = serde_json::from_value(v.get("case").cloned().unwrap_or(v)).unwrap();
  let run = seq::run_case(&case);
  let mut lines = vec![];
  seq::trace_lines(1, &case, &run, &mut lines);
  for l in lines {
    println!("{l}");
  }
  if let Some(d) = seq::diff(&case, &run) {
    eprintln!("L1-DIFF: {d}");
  }
}

fn seq_replay() {
  let diff_out = arg("--diff-out");
  let sample_out = arg("--sample-out");
  let bad_out = arg("--bad-out");
  let mut bfile = bad_out.map(|p| std::io::BufWriter::new(std::fs::File::create(p).unwrap()));
  let sample_every: u64 = arg("--sample-every").and_then(|s| s.parse().ok()).unwrap_or(0);
  let id_base: u64 = arg("--id-base").and_then(|s| s.parse().ok()).unwrap_or(0);
  let mut dfile = diff_out.map(|p| std::io::BufWriter::new(std::fs::File::create(p).unwrap()));
  let mut sfile = sample_out.map(|p| std::io::BufWriter::new(std::fs::File::create(p).unwrap()));
  let stdin = std::io::stdin();
  let (mut n, mut agree, mut differ, mut nonok) = (0u64, 0u64, 0u64, 0u64);
  let mut ops: BTreeMap<String, u64> = BTreeMap::new();
  let mut nontrivial = 0u64;
  // model-level L2 findings on cases where the crate agrees with the model: (property, pipeline, reactions) -> (count, example)
  let mut l2bad: BTreeMap<(String, String), (u64, serde_json::Value)> = BTreeMap::new();
  let mut diffs: Vec<serde_json::Value> = vec![];
  for line in stdin.lock().lines() {
    let line = match line {
      Ok(l) => l,
      Err(_) => break,
    };
    let case = match seq::parse_case_line(&line) {
      Some(c) => c,
      None => continue,
    };
    n += 1;
    let id = id_base + n;
    let run = seq::run_case(&case);
    let mut o = vec![];
    case.root.ops(&mut o);
    for c in &case.cfg.conn {
      c.term.ops(&mut o);
      o.push(c.kind.clone());
    }
    for k in &case.cfg.sbj {
      if case.root.sig().contains("subject") {
        o.push(format!("subject:{k}"));
      }
    }
    for x in o {
      *ops.entry(x).or_default() += 1;
    }
    if run.stims.iter().any(|s| s.obs.iter().any(|e| e.o == "cb")) {
      nontrivial += 1;
    }
    match seq::diff(&case, &run) {
      None => {
        agree += 1;
        if case.stims.iter().any(|s| s.fin != "ok") {
          nonok += 1;
        }
        if let Some(l2) = &case.l2 {
          if let Some(m) = l2.as_object() {
            for (p, v) in m {
              let bad = v == &serde_json::Value::Bool(false) || v == &serde_json::Value::String("bad".into());
              if bad {
                let key = (p.clone(), format!("{}|{}", case.root.sig(), serde_json::to_string(&case.cfg).unwrap()));
                let first = !l2bad.contains_key(&key);
                let e = l2bad.entry(key).or_insert((0, serde_json::json!({"root": case.root, "cfg": case.cfg, "rev": case.rev, "stims": case.stims, "leak1": case.leak1})));
                e.0 += 1;
                // the recorded execution of the first case of every (property, pipeline) goes to TLC trace validation
                if first {
                  if let Some(f) = bfile.as_mut() {
                    let mut lines = vec![];
                    seq::trace_lines(id, &case, &run, &mut lines);
                    for l in lines {
                      writeln!(f, "{l}").unwrap();
                    }
                  }
                }
              }
            }
          }
        }
        if sample_every > 0 && n % sample_every == 0 {
          if let Some(f) = sfile.as_mut() {
            let mut lines = vec![];
            seq::trace_lines(id, &case, &run, &mut lines);
            for l in lines {
              writeln!(f, "{l}").unwrap();
            }
          }
        }
      }
      Some(why) => {
        differ += 1;
        if let Some(f) = dfile.as_mut() {
          let mut lines = vec![];
          seq::trace_lines(id, &case, &run, &mut lines);
          for l in lines {
            writeln!(f, "{l}").unwrap();
          }
        }
        if diffs.len() < 200 {
          diffs.push(serde_json::json!({"id": id, "why": why, "sig": case.root.sig(), "case": {"root": case.root, "cfg": case.cfg, "rev": case.rev, "stims": case.stims, "leak1": case.leak1}}));
        }
      }
    }
  }
  let l2: Vec<serde_json::Value> = l2bad.into_iter().map(|((p, _), (c, ex))| serde_json::json!({"prop": p, "count": c, "case": ex})).collect();
  let summary = serde_json::json!({"cases": n, "agree": agree, "differ": differ, "nonok_confirmed": nonok, "nontrivial": nontrivial, "ops": ops, "l2bad": l2, "diffs": diffs});
  println!("{}", summary);
}

/// explore the schedules of every case of a catalogue file
fn conc_explore() {
  let cases: Vec<conc::CCase> = serde_json::from_str(&std::fs::read_to_string(arg("--cases").expect("--cases")).unwrap()).unwrap();
  let mode = arg("--mode").unwrap_or("dfs".into());
  let bound: usize = arg("--bound").and_then(|s| s.parse().ok()).unwrap_or(2);
  let max_runs: u64 = arg("--max-runs").and_then(|s| s.parse().ok()).unwrap_or(2000);
  let seed: u64 = arg("--seed").and_then(|s| s.parse().ok()).unwrap_or(1);
  let budget: u64 = arg("--budget").and_then(|s| s.parse().ok()).unwrap_or(60_000);
  let shard: usize = arg("--shard").and_then(|s| s.parse().ok()).unwrap_or(0);
  let of: usize = arg("--of").and_then(|s| s.parse().ok()).unwrap_or(1);
  let mut out = std::io::BufWriter::new(std::fs::File::create(arg("--out").expect("--out")).unwrap());
  let mut scheds = vec![];
  let mut per_case = vec![];
  for (i, c) in cases.iter().enumerate() {
    if i % of != shard {
      continue;
    }
    let t0 = std::time::Instant::now();
    let e = conc::explore(c, &mode, bound, max_runs, seed, (i as u64 + 1) * 1_000_000, &mut out, &mut scheds, budget, arg("--log-locks").is_some());
    per_case.push(serde_json::json!({"case": c.name, "runs": e.runs, "distinct_traces": e.distinct, "exhausted_within_bound": e.exhausted, "ms": t0.elapsed().as_millis() as u64}));
  }
  out.flush().unwrap();
  if let Some(p) = arg("--scheds") {
    std::fs::write(p, serde_json::to_string(&scheds).unwrap()).unwrap();
  }
  println!("{}", serde_json::json!({"cases": per_case}));
}

/// C17 "any emitted item": every item-holding operator x the three ways of ending, items are tokens; one ndjson line each
fn tok_all() {
  let only = arg("--op");
  println!("{}", serde_json::json!({"ev": "reset", "op": "", "ending": "", "emitted": 0, "delivered": 0, "live": 0, "fin": "ok"}));
  for op in tok::OPS {
    if only.as_deref().map(|o| o != *op).unwrap_or(false) {
      continue;
    }
    for ending in ["complete", "error", "unsub"] {
      let r = tok::run_one(op, ending);
      println!("{}", serde_json::json!({"ev": "tok", "op": r.op, "ending": r.ending, "emitted": r.emitted, "delivered": r.delivered, "live": r.live, "fin": r.fin}));
    }
  }
}

/// replay one schedule of one concurrent case: {"case": CCase, "strategy": {"dfs":[..]} | {"random": seed}}
fn conc_one() {
  let v: serde_json::Value = serde_json::from_str(&std::fs::read_to_string(arg("--case").expect("--case")).unwrap()).unwrap();
  let case: conc::CCase = serde_json::from_value(v["case"].clone()).unwrap();
  let strat = if let Some(p) = v["strategy"].get("dfs") {
    arx_vstd::rt::Strategy::Dfs { prefix: serde_json::from_value(p.clone()).unwrap() }
  } else {
    arx_vstd::rt::Strategy::Random { seed: v["strategy"]["random"].as_u64().unwrap_or(1) }
  };
  let r = conc::run_ccase(&case, strat, false, 60_000);
  let (lines, _) = conc::trace_of(1, &case, &r);
  for l in lines {
    println!("{l}");
  }
}

/// random pipelines with adaptively chosen stimuli; every recorded execution goes to TLC (RxSeqTrace)
fn seq_fuzz() {
  let n: u64 = arg("--n").and_then(|s| s.parse().ok()).unwrap_or(500);
  let seed: u64 = arg("--seed").and_then(|s| s.parse().ok()).unwrap_or(1);
  let shard: u64 = arg("--shard").and_then(|s| s.parse().ok()).unwrap_or(0);
  let of: u64 = arg("--of").and_then(|s| s.parse().ok()).unwrap_or(1);
  let max_stims: usize = arg("--max-stims").and_then(|s| s.parse().ok()).unwrap_or(6);
  let ill = arg("--ill").is_some();
  let mut out = std::io::BufWriter::new(std::fs::File::create(arg("--out").expect("--out")).unwrap());
  let mut ops: BTreeMap<String, u64> = BTreeMap::new();
  let (mut cases, mut nontrivial) = (0u64, 0u64);
  for i in 0..n {
    if i % of != shard {
      continue;
    }
    let hot = arg("--hot").is_some();
    let (case, run) = if hot { fuzz::fuzz_hot_case(seed.wrapping_mul(1_000_003).wrapping_add(i)) } else { fuzz::fuzz_case(seed.wrapping_mul(1_000_003).wrapping_add(i), max_stims, ill) };
    // values outside the integer-coding domain (nested encodings) are not recorded: TLC integers are 32 bit
    if run.stims.iter().any(|s| s.obs.iter().any(|e| e.v.abs() > 10_000_000 && e.v < term::OBS_BASE)) {
      continue;
    }
    cases += 1;
    if run.stims.iter().any(|s| s.obs.iter().any(|e| e.o == "cb")) {
      nontrivial += 1;
    }
    let mut o = vec![];
    case.root.ops(&mut o);
    for x in o {
      *ops.entry(x).or_default() += 1;
    }
    let mut lines = vec![];
    seq::trace_lines(900_000_000 + i, &case, &run, &mut lines);
    for l in lines {
      writeln!(out, "{l}").unwrap();
    }
  }
  println!("{}", serde_json::json!({"cases": cases, "nontrivial": nontrivial, "ops": ops}));
}
