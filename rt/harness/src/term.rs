//! Pipeline terms (the same uniform record as `T(op, a, b, f, id, in, items, scripts)` in spec/RxSeq.tla) and the
//! interpreter that builds the REAL pipeline from a term, using only the crate's public API.
//! Items are i64; lists / tuples / materials / inner observables are integer-coded by explicit `map` stages, exactly
//! as the specification's Enc* codecs describe.
use another_rxrust::prelude::*;
use serde::{Deserialize, Serialize};
use std::sync::{Arc, Mutex};
use std::time::Duration;

#[derive(Deserialize, Serialize, Clone, Debug, PartialEq)]
pub struct Ev {
  pub k: String,
  pub v: i64,
}
#[derive(Deserialize, Serialize, Clone, Debug, PartialEq)]
pub struct Term {
  pub op: String,
  pub a: i64,
  pub b: i64,
  pub f: String,
  pub id: i64,
  #[serde(rename = "in")]
  pub ins: Vec<Term>,
  pub items: Vec<i64>,
  pub scripts: Vec<Vec<Ev>>,
}
impl Term {
  pub fn leaf(op: &str, a: i64) -> Term {
    Term { op: op.into(), a, b: 0, f: String::new(), id: 0, ins: vec![], items: vec![], scripts: vec![] }
  }
  pub fn un(op: &str, a: i64, f: &str, x: Term) -> Term {
    Term { op: op.into(), a, b: 0, f: f.into(), id: 0, ins: vec![x], items: vec![], scripts: vec![] }
  }
  pub fn sig(&self) -> String {
    if self.ins.is_empty() {
      format!("{}{}", self.op, if self.op == "cold" { format!("#{}", self.scripts.len()) } else { String::new() })
    } else {
      format!("{}({}{})<{}>", self.op, self.a, self.f, self.ins.iter().map(|x| x.sig()).collect::<Vec<_>>().join(","))
    }
  }
  pub fn ops(&self, out: &mut Vec<String>) {
    out.push(self.op.clone());
    for x in &self.ins {
      x.ops(out);
    }
  }
}

/// one observed event (spec: Ev5(o, u, k, v, w))
#[derive(Deserialize, Serialize, Clone, Debug, PartialEq)]
pub struct Obs {
  pub o: String,
  pub u: i64,
  pub k: String,
  pub v: i64,
  #[serde(default)]
  pub w: i64,
}

pub type O = Observable<'static, i64>;
pub const OBS_BASE: i64 = 100_000_000;

#[derive(Clone)]
pub enum Sbj {
  Plain(subjects::Subject<'static, i64>),
  Behavior(subjects::BehaviorSubject<'static, i64>),
  Replay(subjects::ReplaySubject<'static, i64>),
  Async(subjects::AsyncSubject<'static, i64>),
}
impl Sbj {
  pub fn new(kind: &str) -> Sbj {
    match kind {
      "behavior" => Sbj::Behavior(subjects::BehaviorSubject::new(9)),
      "replay" => Sbj::Replay(subjects::ReplaySubject::new()),
      "async" => Sbj::Async(subjects::AsyncSubject::new()),
      _ => Sbj::Plain(subjects::Subject::new()),
    }
  }
  pub fn observable(&self) -> O {
    match self {
      Sbj::Plain(s) => s.observable(),
      Sbj::Behavior(s) => s.observable(),
      Sbj::Replay(s) => s.observable(),
      Sbj::Async(s) => s.observable(),
    }
  }
  pub fn next(&self, x: i64) {
    match self {
      Sbj::Plain(s) => s.next(x),
      Sbj::Behavior(s) => s.next(x),
      Sbj::Replay(s) => s.next(x),
      Sbj::Async(s) => s.next(x),
    }
  }
  pub fn error(&self, x: i64) {
    let e = err(x);
    match self {
      Sbj::Plain(s) => s.error(e),
      Sbj::Behavior(s) => s.error(e),
      Sbj::Replay(s) => s.error(e),
      Sbj::Async(s) => s.error(e),
    }
  }
  pub fn complete(&self) {
    match self {
      Sbj::Plain(s) => s.complete(),
      Sbj::Behavior(s) => s.complete(),
      Sbj::Replay(s) => s.complete(),
      Sbj::Async(s) => s.complete(),
    }
  }
  #[cfg(not(no_count))]
  pub fn count(&self) -> i64 {
    (match self {
      Sbj::Plain(s) => s.vf_observer_count(),
      Sbj::Behavior(s) => s.vf_observer_count(),
      Sbj::Replay(s) => s.vf_observer_count(),
      Sbj::Async(s) => s.vf_observer_count(),
    }) as i64
  }
  #[cfg(no_count)]
  pub fn count(&self) -> i64 {
    -1
  }
}

#[derive(Clone)]
pub enum ConnObj {
  Publish(publish::Publish<'static, i64>),
  RefCount(ref_count::RefCount<'static, i64>),
  Replay(replay::Replay<'static, i64>),
}
impl ConnObj {
  pub fn observable(&self) -> O {
    match self {
      ConnObj::Publish(c) => c.observable(),
      ConnObj::RefCount(c) => c.observable(),
      ConnObj::Replay(c) => c.observable(),
    }
  }
}

/// everything the harness-written sources and sinks share during one case
pub struct World {
  pub cur: usize,                               // index of the stimulus being applied
  pub in_cur: usize,                            // events logged during that stimulus
  pub log: Vec<(usize, Obs)>,                   // (stimulus index, event)
  pub regs: Vec<Vec<Observer<'static, i64>>>,   // probe id -> registered observers, in subscription order
  pub inner: Vec<O>,                            // inner observables handed out by window_with_count / group_by
  pub sbj: Vec<Sbj>,                            // harness subjects (1-based in terms)
  pub conn: Vec<ConnObj>,
  pub tok_ops: Arc<()>,                         // captured by every closure handed to an operator (C17)
  pub slot1: Option<Arc<Mutex<Option<Subscription<'static>>>>>,   // sink 1's own Subscription once subscribe() returned it
}
pub type W = Arc<Mutex<World>>;
pub const MAX_LOG: usize = 150;
pub fn log(w: &W, o: &str, u: i64, k: &str, v: i64, ww: i64) {
  let mut g = w.lock().unwrap();
  let cur = g.cur;
  // an endless producer is cut off by the runtime's step budget; keep only the first MAX_LOG events of a stimulus
  if g.in_cur >= MAX_LOG {
    return;
  }
  g.in_cur += 1;
  g.log.push((cur, Obs { o: o.into(), u, k: k.into(), v, w: ww }));
}
pub fn enc_list(v: &[i64]) -> i64 {
  v.iter().fold(1, |acc, x| acc * 10 + x)
}
pub fn pred(f: &str, a: i64, tok: Arc<()>) -> impl Fn(i64) -> bool + Send + Sync + Clone + 'static {
  let f = f.to_string();
  move |x| {
    let _ = &tok;
    match f.as_str() {
      "lt" => x < a,
      "ge" => x >= a,
      "even" => x % 2 == 0,
      "true" => true,
      "eq" => x == a,
      _ => false,
    }
  }
}
pub fn err(e: i64) -> RxError {
  RxError::from_error(e)
}
/// C04: the payload must come back unchanged; anything else is logged as -1
pub fn payload(e: &RxError) -> i64 {
  if let Some(x) = e.downcast_ref::<i64>() {
    return *x;
  }
  // timeout's TimedOut error is reported as -2, anything else unexpected as -1
  if let Some(io) = e.downcast_ref::<std::io::Error>() {
    if io.kind() == std::io::ErrorKind::TimedOut {
      return -2;
    }
  }
  -1
}

pub fn build(t: &Term, w: &W) -> O {
  let a = t.a;
  let tok = w.lock().unwrap().tok_ops.clone();
  let i0 = || build(&t.ins[0], w);
  let rest = || -> Vec<O> { t.ins[1..].iter().map(|x| build(x, w)).collect() };
  match t.op.as_str() {
    // ---- instrumented sources
    "probe" => {
      let w = w.clone();
      Observable::create(move |s| {
        let inst = {
          let mut g = w.lock().unwrap();
          g.regs[a as usize].push(s);
          g.regs[a as usize].len() as i64
        };
        log(&w, "probe", a, "subscribed", inst, 0);
      })
    }
    "cold" => {
      let w = w.clone();
      let scripts = t.scripts.clone();
      Observable::create(move |s: Observer<'static, i64>| {
        let inst = {
          let mut g = w.lock().unwrap();
          g.regs[a as usize].push(s.clone());
          g.regs[a as usize].len()
        };
        log(&w, "probe", a, "subscribed", inst as i64, 0);
        for ev in &scripts[inst.min(scripts.len()) - 1] {
          log(&w, "probe", a, "issub", s.is_subscribed() as i64, inst as i64);
          match ev.k.as_str() {
            "n" => s.next(ev.v),
            "e" => s.error(err(ev.v)),
            _ => s.complete(),
          }
        }
      })
    }
    // cold source that emits its script from a NEW logical thread started at subscribe time (concurrent cases)
    "acold" => {
      let scripts = t.scripts.clone();
      let t_b = t.b;
      let nsub = Arc::new(std::sync::atomic::AtomicUsize::new(0));
      Observable::create(move |s: Observer<'static, i64>| {
        // the k-th subscription plays the k-th script (the last one from then on)
        let k = nsub.fetch_add(1, std::sync::atomic::Ordering::SeqCst);
        let sc = scripts[k.min(scripts.len() - 1)].clone();
        arx_vstd::rt::emit(serde_json::json!({"ev": "acsub", "src": a}).to_string());
        let block_ms = t_b;
        arx_vstd::thread::spawn(move || {
          for e in sc.iter() {
            if e.k == "s" {
              arx_vstd::thread::sleep(Duration::from_millis(e.v as u64));     // a pause of the emitting thread
              continue;
            }
            arx_vstd::rt::emit(serde_json::json!({"ev": "emitcall", "src": a, "k": e.k, "v": e.v, "issub": s.is_subscribed() as i64}).to_string());
            match e.k.as_str() {
              "n" => s.next(e.v),
              "e" => s.error(err(e.v)),
              _ => s.complete(),
            }
            arx_vstd::rt::emit(serde_json::json!({"ev": "emitret", "src": a, "k": e.k, "v": e.v}).to_string());
          }
        });
        if block_ms > 0 {
          arx_vstd::thread::sleep(Duration::from_millis(block_ms as u64));    // subscribe() itself returns late
        }
      })
    }
    "subject" | "rawsubject" => {
      let s = w.lock().unwrap().sbj[a as usize - 1].clone();
      s.observable()
    }
    "conn" => {
      let c = w.lock().unwrap().conn[a as usize - 1].clone();
      c.observable()
    }
    "ready_set_go" => {
      let (w2, j, v) = (w.clone(), t.b, a);
      utils::ready_set_go(
        move || {
          let s = w2.lock().unwrap().sbj[j as usize - 1].clone();
          s.next(v);
        },
        i0(),
      )
    }
    // ---- creation functions
    "from_iter" => observables::from_iter(t.items.clone().into_iter()),
    "just" => observables::just(a),
    "start" => observables::start(move || {
      let _ = &tok;
      a
    }),
    "from_result" => observables::from_result(if t.b == 0 { Ok(a) } else { Err(a) }),
    "empty" => observables::empty(),
    "never" => observables::never(),
    "error" => observables::error(err(a)),
    "range" => observables::range(a, t.b),
    "repeat" => observables::repeat(a),
    "from_iter_endless" => observables::from_iter(std::iter::repeat(a)),
    "defer" => {
      let inner = i0();
      observables::defer(move || {
        let _ = &tok;
        inner.clone()
      })
    }
    // ---- schedulers and time (concurrent cases only; the clock is the runtime's virtual clock)
    "observe_on" => i0().observe_on(schedulers::new_thread_scheduler()),
    "subscribe_on" => i0().subscribe_on(schedulers::new_thread_scheduler()),
    "interval" => observables::interval(Duration::from_millis(a as u64), schedulers::new_thread_scheduler()).map(|x| x as i64),
    // interval on the default scheduler: blocks the subscribing thread inside subscribe()
    "interval_sync" => observables::interval(Duration::from_millis(a as u64), schedulers::default_scheduler()).map(|x| x as i64),
    "timer" => {
      let v = t.b;
      observables::timer(Duration::from_millis(a as u64), schedulers::new_thread_scheduler()).map(move |_| v)
    }
    "delay" => i0().delay(Duration::from_millis(a as u64)),
    "timeout" => i0().timeout(Duration::from_millis(a as u64), schedulers::new_thread_scheduler()),
    "debounce" => i0().debounce(Duration::from_millis(a as u64), schedulers::new_thread_scheduler()),
    "time_interval" => i0().time_interval().map(|_| 0),
    "timestamp" => i0().timestamp().map(|(_, x)| x),
    // ---- single-source operators
    "identity" => i0().map(move |x| {
      let _ = &tok;
      x
    }),
    "map" => {
      let f = t.f.clone();
      i0().map(move |x| {
        let _ = &tok;
        match f.as_str() {
          "inc" => x + a,
          "mul" => x * a,
          "const" => a,
          "mod" => x % a,
          _ => x,
        }
      })
    }
    "filter" => i0().filter(pred(&t.f, a, tok)),
    "take" => i0().take(a as usize),
    "skip" => i0().skip(a as usize),
    "take_while" => i0().take_while(pred(&t.f, a, tok)),
    "skip_while" => i0().skip_while(pred(&t.f, a, tok)),
    "take_last" => i0().take_last(a as usize),
    "skip_last" => i0().skip_last(a as usize),
    "first" => i0().first(),
    "last" => i0().last(),
    "element_at" => i0().element_at(a as usize),
    "distinct_until_changed" => i0().distinct_until_changed(),
    "scan" => i0().scan(move |(x, y)| {
      let _ = &tok;
      x + y
    }),
    "reduce" => i0().reduce(move |(x, y)| {
      let _ = &tok;
      x + y
    }),
    "sum" => i0().sum(),
    "sum_and_count" => i0().sum_and_count().map(|(s, n)| s * 100 + n as i64),
    "min" => i0().min(),
    "max" => i0().max(),
    "count" => i0().count().map(|n| n as i64),
    "all" => i0().all(pred(&t.f, a, tok)).map(|b| b as i64),
    "contains" => i0().contains(a).map(|b| b as i64),
    "default_if_empty" => i0().default_if_empty(a),
    "ignore_elements" => i0().ignore_elements(),
    "start_with" => i0().start_with(t.items.clone().into_iter()),
    "buffer_with_count" => i0().buffer_with_count(a as usize).map(|v| enc_list(&v)),
    "materialize" => i0().materialize().map(|m| match m {
      Material::Next(x) => x,
      Material::Error(e) => 1000 + payload(&e),
      Material::Complete => 2000,
    }),
    "dematerialize" => i0()
      .map(|x| {
        if x == 2000 {
          Material::Complete
        } else if x >= 1000 {
          Material::Error(err(x - 1000))
        } else {
          Material::Next(x)
        }
      })
      .dematerialize(),
    "map_to_any" => i0().map_to_any().map(|x| *x.downcast_ref::<i64>().unwrap_or(&-1)),
    "tap" => {
      let (w1, w2, w3, id) = (w.clone(), w.clone(), w.clone(), t.id);
      let (t1, t2, t3) = (tok.clone(), tok.clone(), tok);
      i0().tap(
        move |x| {
          let _ = &t1;
          log(&w1, "tap", id, "n", x, 0)
        },
        move |e| {
          let _ = &t2;
          log(&w2, "tap", id, "e", payload(&e), 0)
        },
        move || {
          let _ = &t3;
          log(&w3, "tap", id, "c", 0, 0)
        },
      )
    }
    "window_with_count" => {
      let w = w.clone();
      i0().window_with_count(a as usize).map(move |o| {
        let mut g = w.lock().unwrap();
        g.inner.push(o);
        OBS_BASE + g.inner.len() as i64 - 1
      })
    }
    "group_by" => {
      let w = w.clone();
      i0().group_by(move |x| {
        let _ = &tok;
        x % 2
      })
      .map(move |o| {
        let mut g = w.lock().unwrap();
        g.inner.push(o);
        OBS_BASE + g.inner.len() as i64 - 1
      })
    }
    "flat_map" => {
      let (w, f) = (w.clone(), t.f.clone());
      i0().flat_map(move |x| {
        let _ = &tok;
        match f.as_str() {
          "obs" => {
            let o = w.lock().unwrap().inner[(x - OBS_BASE) as usize].clone();
            o
          }
          "just" => observables::just(x),
          "pair" => observables::from_iter(vec![x, x + 1].into_iter()),
          "err1" => {
            if x == 1 {
              observables::error(err(8))
            } else {
              observables::just(x)
            }
          }
          "probe2" => build(&Term::leaf("probe", 2), &w),
          // the mapping function ends the running subscription of sink 1 before it returns its (hot) inner observable
          "unsub_probe2" => {
            let slot = w.lock().unwrap().slot1.clone();
            if let Some(slot) = slot {
              let h = slot.lock().unwrap().take();
              if let Some(h) = h {
                h.unsubscribe();
                log(&w, "mark", 1, "unsubret", 0, 0);
              }
            }
            build(&Term::leaf("probe", 2), &w)
          }
          // a window / group observed together with its own terminal (Complete = 2000, Error = 1000 + payload)
          "obsmat" => {
            let o = w.lock().unwrap().inner[(x - OBS_BASE) as usize].clone();
            o.materialize().map(|m| match m {
              Material::Next(x) => x,
              Material::Error(e) => 1000 + payload(&e),
              Material::Complete => 2000,
            })
          }
          // inner observable with an operator (and hence a closure of its own) in front of the hot source
          "probe2map" => build(&Term::un("map", 0, "inc", Term::leaf("probe", 2)), &w),
          // inner observable that emits 10x+1 and completes from a new logical thread
          "acold" => {
            let mut t = Term::leaf("acold", x);
            t.scripts = vec![vec![Ev { k: "n".into(), v: 10 * x + 1 }, Ev { k: "c".into(), v: 0 }]];
            build(&t, &w)
          }
          _ => observables::empty(),
        }
      })
    }
    // ---- error handling
    "retry" => i0().retry(a as usize),
    "retry_when" => {
      let f = t.f.clone();
      i0().retry_when(move |e| {
        let _ = &tok;
        match f.as_str() {
          "always" => true,
          "never" => false,
          "payload" => payload(&e) == a,
          _ => false,
        }
      })
    }
    "on_error_resume_next" => {
      let (w, f) = (w.clone(), t.f.clone());
      i0().on_error_resume_next(move |e| {
        let _ = &tok;
        match f.as_str() {
          "just" => observables::just(9),
          "empty" => observables::empty(),
          "error" => observables::error(err(payload(&e) + 1)),
          // a replacement whose subscribe() itself takes 150 ms (virtual) before it returns; it emits 9 and completes from its own thread
          "slow" => {
            let mut t = Term::leaf("acold", 9);
            t.b = 150;
            t.scripts = vec![vec![Ev { k: "s".into(), v: 200 }, Ev { k: "n".into(), v: 9 }, Ev { k: "c".into(), v: 0 }]];
            build(&t, &w)
          }
          _ => build(&Term::leaf("probe", 2), &w),
        }
      })
    }
    // ---- several sources
    "merge" => i0().merge(&rest()),
    "zip" => i0().zip(&rest()).map(|v| enc_list(&v)),
    "combine_latest" => i0().combine_latest(&rest(), move |v| {
      let _ = &tok;
      enc_list(&v)
    }),
    "amb" => i0().amb(&rest()),
    "sequence_equal" => i0().sequence_equal(&rest()).map(|b| b as i64),
    "concat" => i0().concat(&rest()),
    "take_until" => i0().take_until(build(&t.ins[1], w)),
    "skip_until" => i0().skip_until(build(&t.ins[1], w)),
    "sample" => i0().sample(build(&t.ins[1], w)),
    "switch_on_next" => i0().switch_on_next(build(&t.ins[1], w)),
    other => panic!("unknown op {other}"),
  }
}
