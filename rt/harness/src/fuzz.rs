//! impl -> spec for pipelines TLC did not enumerate: random operator chains (depth 2..5 over the whole sequential
//! operator table) with random, adaptively chosen stimuli are executed on the real crate; the recorded traces are judged by
//! TLC (RxSeqTrace: L2 monitors = alarm, L1 model = drift).  Deterministic in the seed.
use crate::seq::*;
use crate::term::*;

pub struct Rng(pub u64);
impl Rng {
  pub fn next(&mut self) -> u64 {
    let mut x = self.0;
    x ^= x >> 12;
    x ^= x << 25;
    x ^= x >> 27;
    self.0 = x;
    x.wrapping_mul(0x2545F4914F6CDD1D)
  }
  pub fn below(&mut self, n: u64) -> u64 {
    self.next() % n
  }
  pub fn pick<'a, T>(&mut self, v: &'a [T]) -> &'a T {
    &v[self.below(v.len() as u64) as usize]
  }
}

/// "wide" cases (one in three) leave the small bounds of the enumerated groups: parameters up to 8, sources of up to 9 items
/// with values 0..9, up to 12 stimuli
static WIDE: std::sync::atomic::AtomicBool = std::sync::atomic::AtomicBool::new(false);
fn wide() -> bool {
  WIDE.load(std::sync::atomic::Ordering::Relaxed)
}
fn lim(small: u64, big: u64) -> u64 {
  if wide() { big } else { small }
}

fn ev(k: &str, v: i64) -> Ev {
  Ev { k: k.into(), v }
}

/// a source: hot probe 1 (at most once per term), or a cold / library source
fn leaf(r: &mut Rng, used_probe1: &mut bool, used_cold: &mut bool, allow_ill: bool) -> Term {
  loop {
    match r.below(8) {
      0 | 1 if !*used_probe1 => {
        *used_probe1 = true;
        return Term::leaf("probe", 1);
      }
      2 if !*used_cold => {
        *used_cold = true;
        let mut t = Term::leaf("cold", 3);
        let n = r.below(lim(4, 8));
        let mut sc: Vec<Ev> = (0..n).map(|_| ev("n", r.below(lim(3, 10)) as i64)).collect();
        match r.below(4) {
          0 => sc.push(ev("c", 0)),
          1 => sc.push(ev("e", 7)),
          2 if allow_ill => {
            sc.push(ev("c", 0));
            sc.push(ev("n", 1));
            sc.push(ev("e", 7));
          }
          _ => {}
        }
        let mut second = vec![ev("n", 1), ev("c", 0)];
        if r.below(2) == 0 {
          second.insert(0, ev("n", 2));
        }
        t.scripts = vec![sc, second];
        return t;
      }
      3 => {
        let mut t = Term::leaf("from_iter", 0);
        t.items = (0..r.below(lim(4, 10))).map(|_| r.below(lim(3, 10)) as i64).collect();
        return t;
      }
      4 => return Term::leaf("just", r.below(3) as i64),
      5 => return Term::leaf(*r.pick(&["empty", "never"]), 0),
      6 => return Term::leaf("error", 4),
      7 => {
        let mut t = Term::leaf("range", 1);
        t.b = r.below(lim(4, 9)) as i64;
        return t;
      }
      _ => {}
    }
  }
}

fn unary(r: &mut Rng, x: Term) -> Term {
  let n = r.below(lim(4, 9)) as i64;
  match r.below(34) {
    0 => Term::un("map", 1, "inc", x),
    1 => Term::un("filter", 1, "ge", x),
    2 => Term::un("filter", 0, "even", x),
    3 => Term::un("take", n, "", x),
    4 => Term::un("skip", n, "", x),
    5 => Term::un("take_while", 2, "lt", x),
    6 => Term::un("skip_while", 1, "lt", x),
    7 => Term::un("take_last", n, "", x),
    8 => Term::un("skip_last", n, "", x),
    9 => Term::un("first", 0, "", x),
    10 => Term::un("last", 0, "", x),
    11 => Term::un("element_at", n, "", x),
    12 => Term::un("distinct_until_changed", 0, "", x),
    13 => Term::un("scan", 0, "", x),
    14 => Term::un(*r.pick(&["reduce", "sum", "min", "max", "count"]), 0, "", x),
    15 => Term::un("all", 2, "lt", x),
    16 => Term::un("contains", 1, "", x),
    17 => {
      let mut t = Term::un("default_if_empty", 9, "", x);
      t.id = 1;
      t
    }
    18 => Term::un("ignore_elements", 0, "", x),
    19 => {
      let mut t = Term::un("start_with", 0, "", x);
      t.items = vec![8, 9];
      t
    }
    20 => Term::un("buffer_with_count", 1 + r.below(lim(2, 5)) as i64, "", x),
    21 => Term::un("materialize", 0, "", x),
    22 => Term::un("dematerialize", 0, "", Term::un("materialize", 0, "", x)),
    23 => {
      let mut t = Term::un("tap", 0, "", x);
      t.id = 2;
      t
    }
    24 => Term::un("flat_map", 0, "obs", Term::un("window_with_count", 1 + r.below(lim(3, 6)) as i64, "", x)),
    25 => Term::un("flat_map", 0, "obs", Term::un("group_by", 0, "", x)),
    26 => Term::un("flat_map", 0, *r.pick(&["just", "pair", "err1", "empty"]), x),
    27 => Term::un("retry", 1 + r.below(lim(3, 5)) as i64, "", x),
    28 => Term::un("retry_when", 7, *r.pick(&["never", "payload"]), x),
    29 => Term::un("on_error_resume_next", 0, *r.pick(&["just", "empty", "error"]), x),
    30 => Term::un("sum_and_count", 0, "", x),
    31 => Term::un("map_to_any", 0, "", x),
    32 => Term::un("skip_while", 2, "lt", x),
    _ => Term::un("map", 2, "mul", x),
  }
}

fn binary(r: &mut Rng, x: Term, y: Term) -> Term {
  // (combine_latest / sequence_equal are known findings judged at the root by the enumerated groups only)
  let op = *r.pick(&["merge", "zip", "amb", "take_until", "skip_until", "sample", "concat", "switch_on_next"]);
  let mut t = Term::leaf(op, 0);
  t.ins = vec![x, y];
  if op == "concat" {
    t.id = 3;
  }
  t
}

pub fn random_term(r: &mut Rng, depth: u64, allow_ill: bool) -> Term {
  let (mut p1, mut cold) = (false, false);
  let mut t = leaf(r, &mut p1, &mut cold, allow_ill);
  let mut used_probe2 = false;
  for _ in 0..depth {
    if r.below(5) == 0 {
      // second input: hot probe 2 (once), or a small library source
      let y = if !used_probe2 && r.below(2) == 0 {
        used_probe2 = true;
        Term::leaf("probe", 2)
      } else {
        let mut f = Term::leaf("from_iter", 0);
        f.items = vec![5, 6];
        f
      };
      t = if r.below(2) == 0 { binary(r, t, y) } else { binary(r, y, t) };
    } else {
      t = unary(r, t);
    }
  }
  t
}

fn has_op(t: &Term, op: &str) -> bool {
  t.op == op || t.ins.iter().any(|x| has_op(x, op))
}

/// one random case: the stimuli are chosen step by step from what is possible in the real world state
pub fn fuzz_case(seed: u64, max_stims: usize, allow_ill: bool) -> (Case, Run) {
  let mut r = Rng(seed.wrapping_mul(0x9E3779B97F4A7C15) | 1);
  WIDE.store(seed % 3 == 0, std::sync::atomic::Ordering::Relaxed);
  let max_stims = if wide() { max_stims.max(12) } else { max_stims };
  let depth = 2 + r.below(4);
  let root = random_term(&mut r, depth, allow_ill);
  // retry(n) over an always-failing synchronous source recurses without bound only for n = 0, which is never generated
  let react = React { unsub_at: if r.below(4) == 0 { 1 + r.below(2) as i64 } else { 0 }, emit_at: 0, sub_at: 0 };
  let mut case = Case { root: root.clone(), cfg: Cfg { react, sbj: vec!["plain".into()], conn: vec![] }, rev: r.below(2) == 0, stims: vec![], leak1: None, l2: None };
  // plan: sub 1, then a random walk; emits go to registrations that exist after the previous prefix was run
  let mk = |k: &str, a: i64, b: i64, v: i64, e: &str| Stim { st: St { k: k.into(), a, b, v, e: e.into() }, obs: vec![], fin: String::new(), cnt: vec![], site: String::new() };
  case.stims.push(mk("sub", 1, 0, 0, ""));
  let two_subs = r.below(6) == 0 && !has_op(&root, "probe");
  let mut run = run_case(&case);
  while case.stims.len() < max_stims && run.stims.len() == case.stims.len() && run.stims.iter().all(|s| s.fin == "ok") {
    // registrations known so far
    let mut regs: Vec<(i64, i64)> = vec![];
    for s in &run.stims {
      for o in &s.obs {
        if o.o == "probe" && o.k == "subscribed" && (o.u == 1 || o.u == 2) {
          regs.push((o.u, o.v));
        }
      }
    }
    let n_subs = case.stims.iter().filter(|s| s.st.k == "sub").count() as i64;
    let choice = r.below(10);
    let st = if choice < lim(6, 8) && !regs.is_empty() {
      let (i, inst) = *r.pick(&regs);
      match r.below(lim(7, 12)) {
        0 => mk("emit", i, inst, 0, "c"),
        1 => mk("emit", i, inst, 5, "e"),
        _ => mk("emit", i, inst, r.below(lim(3, 10)) as i64, "n"),
      }
    } else if choice == 6 {
      mk("unsub", 1 + r.below(n_subs as u64) as i64, 0, 0, "")
    } else if choice == 7 && two_subs && n_subs < 2 {
      mk("sub", 2, 0, 0, "")
    } else {
      mk("query", 1 + r.below(n_subs as u64) as i64, 0, 0, "")
    };
    case.stims.push(st);
    run = run_case(&case);
  }
  (case, run)
}


/// long random call sequences on a subject (C10) or a connectable over a hot source (C13): the enumerated groups stop at 4-8
/// stimuli; these go to 24 (history buffers, serial counters and slices only show above that)
pub fn fuzz_hot_case(seed: u64) -> (Case, Run) {
  let mut r = Rng(seed.wrapping_mul(0x9E3779B97F4A7C15) | 1);
  let mk = |k: &str, a: i64, b: i64, v: i64, e: &str| Stim { st: St { k: k.into(), a, b, v, e: e.into() }, obs: vec![], fin: String::new(), cnt: vec![], site: String::new() };
  let subject = r.below(2) == 0;
  let (root, cfg) = if subject {
    let kind = *r.pick(&["plain", "behavior", "replay", "async"]);
    let s = Term::leaf("subject", 1);
    let root = if r.below(3) == 0 { Term::un("map", 1, "inc", s) } else { s };
    (root, Cfg { react: React::default(), sbj: vec![kind.into()], conn: vec![] })
  } else {
    let kind = *r.pick(&["publish", "ref_count", "replay"]);
    (Term::leaf("conn", 1), Cfg { react: React::default(), sbj: vec!["plain".into()], conn: vec![ConnCfg { kind: kind.into(), term: Term::leaf("probe", 1) }] })
  };
  let publish = cfg.conn.first().map(|c| c.kind == "publish").unwrap_or(false);
  let mut case = Case { root, cfg, rev: r.below(2) == 0, stims: vec![], leak1: None, l2: None };
  let mut len = 8 + r.below(17) as usize;
  // one case in three starts with a long run of items (17-20) before the late subscribers come: history buffers beyond 16 items
  if r.below(3) == 0 {
    if !subject || r.below(2) == 0 {
      case.stims.push(mk("sub", 1, 0, 0, ""));
    }
    if publish {
      case.stims.push(mk("connect", 1, 0, 0, ""));
    }
    let burst = 17 + r.below(4) as usize;
    for _ in 0..burst {
      if subject {
        case.stims.push(mk("subj", 1, 0, r.below(3) as i64, "n"));
      } else {
        case.stims.push(mk("emit", 1, 1, r.below(3) as i64, "n"));
      }
    }
    len += case.stims.len();
  }
  let mut run = run_case(&case);
  let mut connected = publish && case.stims.iter().any(|s| s.st.k == "connect");
  while case.stims.len() < len && run.stims.len() == case.stims.len() && run.stims.iter().all(|s| s.fin == "ok") {
    let n_subs = case.stims.iter().filter(|s| s.st.k == "sub").count() as i64;
    let mut regs: Vec<(i64, i64)> = vec![];
    for s in &run.stims {
      for o in &s.obs {
        if o.o == "probe" && o.k == "subscribed" && o.u == 1 {
          regs.push((o.u, o.v));
        }
      }
    }
    let c = r.below(12);
    let st = if c < 2 && n_subs < 3 {
      mk("sub", n_subs + 1, 0, 0, "")
    } else if c == 2 && n_subs > 0 {
      mk("unsub", 1 + r.below(n_subs as u64) as i64, 0, 0, "")
    } else if subject {
      match r.below(14) {
        0 => mk("subj", 1, 0, 0, "c"),
        1 => mk("subj", 1, 0, 5, "e"),
        _ => mk("subj", 1, 0, r.below(3) as i64, "n"),
      }
    } else if publish && c == 3 {
      connected = !connected;
      mk(if connected { "connect" } else { "disconnect" }, 1, 0, 0, "")
    } else if let Some((i, inst)) = regs.last().cloned() {
      match r.below(14) {
        0 => mk("emit", i, inst, 0, "c"),
        1 => mk("emit", i, inst, 5, "e"),
        _ => mk("emit", i, inst, r.below(3) as i64, "n"),
      }
    } else if n_subs < 3 {
      mk("sub", n_subs + 1, 0, 0, "")
    } else {
      mk("query", 1, 0, 0, "")
    };
    case.stims.push(st);
    run = run_case(&case);
  }
  (case, run)
}
