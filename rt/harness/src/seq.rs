//! Sequential cases: apply a history of harness stimuli to the real crate (under the controlled runtime, so that
//! self-deadlocks and endless producers end with a verdict instead of hanging) and record what was observed.
use crate::term::*;
use another_rxrust::prelude::*;
use arx_vstd::rt::{self, Config, Outcome, Strategy};
use serde::{Deserialize, Serialize};
use std::sync::{Arc, Mutex};

#[derive(Deserialize, Serialize, Clone, Debug, PartialEq)]
pub struct St {
  pub k: String,
  pub a: i64,
  pub b: i64,
  pub v: i64,
  #[serde(default)]
  pub e: String,
}
#[derive(Deserialize, Serialize, Clone, Debug)]
pub struct Stim {
  pub st: St,
  #[serde(default)]
  pub obs: Vec<Obs>,
  #[serde(default)]
  pub fin: String,
  #[serde(default)]
  pub cnt: Vec<i64>,
  /// where a deadlocked run is blocked (creation site of the lock), for triage only
  #[serde(default, skip_serializing_if = "String::is_empty")]
  pub site: String,
}
#[derive(Deserialize, Serialize, Clone, Debug, Default)]
pub struct React {
  pub unsub_at: i64,
  pub emit_at: i64,
  pub sub_at: i64,
}
#[derive(Deserialize, Serialize, Clone, Debug)]
pub struct ConnCfg {
  pub kind: String,
  pub term: Term,
}
#[derive(Deserialize, Serialize, Clone, Debug, Default)]
pub struct Cfg {
  pub react: React,
  pub sbj: Vec<String>,
  pub conn: Vec<ConnCfg>,
}
#[derive(Deserialize, Serialize, Clone, Debug)]
pub struct Case {
  pub root: Term,
  pub cfg: Cfg,
  pub rev: bool,
  pub stims: Vec<Stim>,
  #[serde(default)]
  pub leak1: Option<bool>,
  #[serde(default)]
  pub l2: Option<serde_json::Value>,
}
/// what the real crate did
#[derive(Serialize, Clone, Debug)]
pub struct Run {
  pub stims: Vec<Stim>,
  /// a stimulus of the case could not be applied to the real objects (e.g. it addresses a source subscription the
  /// crate never made): the run stops before it; only possible when the crate has left the model
  pub truncated: bool,
  pub leak_sink: Option<bool>,
  pub leak_ops: Option<bool>,
  pub panics: Vec<String>,
  pub outcome: String,
}

const BUDGET: u64 = 40_000;

pub fn run_case(case: &Case) -> Run {
  let case2 = case.clone();
  let w: W = Arc::new(Mutex::new(World {
    cur: 0,
    in_cur: 0,
    log: vec![],
    regs: vec![vec![]; 4],
    inner: vec![],
    sbj: vec![],
    conn: vec![],
    tok_ops: Arc::new(()),
    slot1: None,
  }));
  let w_out = w.clone();
  let counts: Arc<Mutex<Vec<Option<Vec<i64>>>>> = Arc::new(Mutex::new(vec![None; case.stims.len()]));
  let counts2 = counts.clone();
  let leaks: Arc<Mutex<(Option<bool>, Option<bool>)>> = Default::default();
  let leaks2 = leaks.clone();
  let trunc: Arc<Mutex<bool>> = Default::default();
  let trunc2 = trunc.clone();
  let reached: Arc<Mutex<usize>> = Arc::new(Mutex::new(0));
  let reached2 = reached.clone();
  arx_vstd::collections::REVERSE.store(case.rev, std::sync::atomic::Ordering::Relaxed);
  let r = rt::run(
    Config { strategy: Strategy::Dfs { prefix: vec![] }, budget: BUDGET, writer_pref: true, log_locks: false },
    move || {
      let tok = Arc::new(());
      // harness subjects and connectables
      let sbjs: Vec<Sbj> = case2.cfg.sbj.iter().map(|k| Sbj::new(k)).collect();
      w.lock().unwrap().sbj = sbjs.clone();
      let mut conns = vec![];
      for c in &case2.cfg.conn {
        let src = build(&c.term, &w);
        conns.push(match c.kind.as_str() {
          "publish" => ConnObj::Publish(src.publish()),
          "ref_count" => ConnObj::RefCount(src.ref_count()),
          _ => ConnObj::Replay(src.replay()),
        });
      }
      w.lock().unwrap().conn = conns.clone();
      let root = build(&case2.root, &w);
      let mut handles: Vec<Subscription<'static>> = vec![];
      let mut slots: Vec<Arc<Mutex<Option<Subscription<'static>>>>> = vec![];
      let mut conn_handles: Vec<Option<Subscription<'static>>> = vec![None; conns.len()];
      let count_all = |w: &W| -> Vec<i64> {
        let (s, c) = {
          let g = w.lock().unwrap();
          (g.sbj.clone(), g.conn.clone())
        };
        let mut v: Vec<i64> = s.iter().map(|x| x.count()).collect();
        for x in c.iter() {
          v.push(conn_count(x));
        }
        v
      };
      for (si, stim) in case2.stims.iter().enumerate() {
        {
          let mut g = w.lock().unwrap();
          g.cur = si;
          g.in_cur = 0;
        }
        *reached2.lock().unwrap() = si;
        let st = &stim.st;
        match st.k.as_str() {
          "sub" => {
            let u = st.a;
            let slot: Arc<Mutex<Option<Subscription<'static>>>> = Default::default();
            slots.push(slot.clone());
            if u == 1 {
              w.lock().unwrap().slot1 = Some(slot.clone());
            }
            let sb = subscribe_sink(&root, u, &w, if u == 1 { case2.cfg.react.clone() } else { React::default() }, slot.clone(), if u == 1 { Some(tok.clone()) } else { None });
            *slot.lock().unwrap() = Some(sb.clone());
            handles.push(sb);
          }
          "emit" => {
            let o = w.lock().unwrap().regs.get(st.a as usize).and_then(|r| r.get(st.b as usize - 1)).cloned();
            let o = match o {
              Some(o) => o,
              None => {
                *trunc2.lock().unwrap() = true;
                break;
              }
            };
            log(&w, "probe", st.a, "issub", o.is_subscribed() as i64, st.b);
            match st.e.as_str() {
              "n" => o.next(st.v),
              "e" => o.error(err(st.v)),
              _ => o.complete(),
            }
          }
          "unsub" | "query" | "using" | "using_panic" if handles.len() < st.a as usize => {
            *trunc2.lock().unwrap() = true;
            break;
          }
          "unsub" => {
            let h = &handles[st.a as usize - 1];
            h.unsubscribe();
            log(&w, "mark", st.a, "unsubret", 0, 0);
            log(&w, "ans", st.a, "issub", h.is_subscribed() as i64, 0);
          }
          // utils::Using: the guard is dropped at scope exit / by unwinding out of a (caught) panic
          "using" | "using_panic" => {
            let h = handles[st.a as usize - 1].clone();
            if st.k == "using" {
              let _guard = utils::Using::new(h.clone());
            } else {
              let h2 = h.clone();
              let prev = std::panic::take_hook();
              std::panic::set_hook(Box::new(|_| {}));
              let _ = std::panic::catch_unwind(std::panic::AssertUnwindSafe(move || {
                let _guard = utils::Using::new(h2);
                std::panic::panic_any(0u8);
              }));
              std::panic::set_hook(prev);
            }
            log(&w, "mark", st.a, "unsubret", 0, 0);
            log(&w, "ans", st.a, "issub", h.is_subscribed() as i64, 0);
          }
          "query" => {
            let h = &handles[st.a as usize - 1];
            log(&w, "ans", st.a, "issub", h.is_subscribed() as i64, 0);
          }
          "subj" => {
            let s = sbjs[st.a as usize - 1].clone();
            match st.e.as_str() {
              "n" => s.next(st.v),
              "e" => s.error(st.v),
              _ => s.complete(),
            }
          }
          "connect" => {
            if let ConnObj::Publish(p) = &conns[st.a as usize - 1] {
              conn_handles[st.a as usize - 1] = Some(p.connect());
            }
          }
          "disconnect" => {
            if let Some(h) = &conn_handles[st.a as usize - 1] {
              h.unsubscribe();
            }
          }
          other => panic!("unknown stimulus {other}"),
        }
        let c = count_all(&w);
        counts2.lock().unwrap()[si] = Some(c);
      }
      if *trunc2.lock().unwrap() {
        return;
      }
      *reached2.lock().unwrap() = case2.stims.len();
      // C17: drop every handle the harness holds (and break the harness's own cycles), then look at the tokens
      for s in slots.iter() {
        *s.lock().unwrap() = None;
      }
      drop(handles);
      drop(conn_handles);
      drop(root);
      drop(conns);
      drop(sbjs);
      let tok_ops = {
        let mut g = w.lock().unwrap();
        g.regs.clear();
        g.inner.clear();
        g.sbj.clear();
        g.conn.clear();
        g.tok_ops.clone()
      };
      // one reference is `tok_ops` here, one is the World's
      *leaks2.lock().unwrap() = (Some(Arc::strong_count(&tok) > 1), Some(Arc::strong_count(&tok_ops) > 2));
    },
  );
  let truncated = *trunc.lock().unwrap();
  let log = std::mem::take(&mut w_out.lock().unwrap_or_else(|e| e.into_inner()).log);
  // break cycles through the world so that repeated cases do not accumulate memory
  {
    let mut g = w_out.lock().unwrap_or_else(|e| e.into_inner());
    g.regs.clear();
    g.inner.clear();
    g.sbj.clear();
    g.conn.clear();
  }
  let reached = *reached.lock().unwrap();
  let counts = counts.lock().unwrap().clone();
  let verdict = match &r.outcome {
    Outcome::AllFinished => "ok",
    Outcome::Deadlock(_) => "stuck",
    Outcome::StepBudget => "budget",
  };
  let panicked = !r.panics.is_empty();
  let mut stims = vec![];
  for (i, s) in case.stims.iter().enumerate() {
    if i > reached {
      break;
    }
    let obs: Vec<Obs> = log.iter().filter(|(k, _)| *k == i).map(|(_, o)| o.clone()).collect();
    let completed = counts[i].is_some();
    if truncated && !completed {
      break;
    }
    let fin = if completed { "ok" } else if panicked { "panic" } else { verdict };
    let site = if fin == "stuck" { { let o = format!("{:?}", r.outcome); o.split('[').filter(|x| x.contains(".rs:")).filter_map(|x| x.split(']').next()).collect::<Vec<_>>().join(" ") } } else { String::new() };
    stims.push(Stim { st: s.st.clone(), obs, fin: fin.to_string(), cnt: counts[i].clone().unwrap_or_default(), site });
    if !completed {
      break;
    }
  }
  let (ls, lo) = *leaks.lock().unwrap();
  Run {
    stims,
    truncated,
    leak_sink: ls,
    leak_ops: lo,
    panics: r.panics.iter().map(|(t, p)| format!("t{t}: {p}")).collect(),
    outcome: format!("{:?}", r.outcome),
  }
}

fn conn_count(c: &ConnObj) -> i64 {
  // the connectables do not expose their subject; the count is observed through the subject accessor when possible
  #[cfg(not(no_count))]
  {
    match c {
      ConnObj::Publish(p) => p.vf_observer_count() as i64,
      ConnObj::RefCount(p) => p.vf_observer_count() as i64,
      ConnObj::Replay(p) => p.vf_observer_count() as i64,
    }
  }
  #[cfg(no_count)]
  {
    let _ = c;
    -1
  }
}

pub fn subscribe_sink(root: &O, u: i64, w: &W, react: React, slot: Arc<Mutex<Option<Subscription<'static>>>>, tok: Option<Arc<()>>) -> Subscription<'static> {
  let seen = Arc::new(Mutex::new(0i64));
  let (w1, w2, w3) = (w.clone(), w.clone(), w.clone());
  let (t1, t2, t3) = (tok.clone(), tok.clone(), tok);
  let emit_at = react.emit_at;
  root.subscribe(
    move |x| {
      let _ = &t1;
      log(&w1, "cb", u, "n", x, 0);
      let c = {
        let mut s = seen.lock().unwrap();
        *s += 1;
        *s
      };
      if c == react.unsub_at {
        let h = slot.lock().unwrap().take();
        if let Some(h) = h {
          h.unsubscribe();
          log(&w1, "mark", u, "unsubret", 0, 0);
        }
      }
      if c == react.emit_at {
        let s = w1.lock().unwrap().sbj[0].clone();
        s.next(7);
      }
      if react.sub_at < 0 && c == -react.sub_at {
        // subscribe sink 3 to the connectable this callback is being called from
        let o = w1.lock().unwrap().conn[0].observable();
        let (wa, wb, wc) = (w1.clone(), w1.clone(), w1.clone());
        o.subscribe(move |x| log(&wa, "cb", 3, "n", x, 0), move |e| log(&wb, "cb", 3, "e", payload(&e), 0), move || log(&wc, "cb", 3, "c", 0, 0));
      }
      if c == react.sub_at {
        let s = w1.lock().unwrap().sbj[0].clone();
        let (wa, wb, wc) = (w1.clone(), w1.clone(), w1.clone());
        s.observable().subscribe(move |x| log(&wa, "cb", 3, "n", x, 0), move |e| log(&wb, "cb", 3, "e", payload(&e), 0), move || log(&wc, "cb", 3, "c", 0, 0));
      }
    },
    move |e| {
      let _ = &t2;
      log(&w2, "cb", u, "e", payload(&e), 0);
      term_react(&w2, emit_at, true);
    },
    move || {
      let _ = &t3;
      log(&w3, "cb", u, "c", 0, 0);
      term_react(&w3, emit_at, false);
    },
  )
}

/// reaction `emit_at = -1`: from inside the terminal callback push next(7) and then the OTHER terminal into the first observer an
/// instrumented source was handed (a user-written hot source driven re-entrantly)
fn term_react(w: &W, emit_at: i64, got_error: bool) {
  if emit_at != -1 {
    return;
  }
  let s = {
    let g = w.lock().unwrap();
    g.regs.iter().skip(1).find(|v| !v.is_empty()).map(|v| v[0].clone())
  };
  if let Some(s) = s {
    s.next(7);
    if got_error {
      s.complete();
    } else {
      s.error(err(6));
    }
  }
}

/// compare what the crate did with what the implementation-shaped model (L1) predicts; None = agreement
pub fn diff(case: &Case, run: &Run) -> Option<String> {
  let last = case.stims.len() - 1;
  for (i, exp) in case.stims.iter().enumerate() {
    let got = match run.stims.get(i) {
      Some(g) => g,
      None => return Some(format!("stimulus {i} was never reached: run ended with {}", run.outcome)),
    };
    let norm = |v: &Vec<Obs>| -> Vec<Obs> {
      v.iter().map(|o| { let mut o = o.clone(); if o.v >= OBS_BASE { o.v = OBS_BASE; } o }).collect()
    };
    let mut g = norm(&got.obs);
    let e = norm(&exp.obs);
    if exp.fin != "ok" {
      // the model stops observing at the point of the deadlock / when its fuel is exhausted
      if g.len() > e.len() { g.truncate(e.len()); }
      let n = g.len().min(e.len());
      if exp.fin == "budget" && g[..n] == e[..n] { g = e.clone(); }
    }
    if g != e {
      return Some(format!("stimulus {i} ({} {} {} {}{}): model {} | crate {}", exp.st.k, exp.st.a, exp.st.b, exp.st.v, exp.st.e, show(&e), show(&g)));
    }
    if got.fin != exp.fin {
      return Some(format!("stimulus {i}: verdict model {} | crate {} ({}; {:?})", exp.fin, got.fin, run.outcome, run.panics));
    }
    if exp.fin == "ok" && got.cnt != exp.cnt && !got.cnt.contains(&-1) {
      return Some(format!("stimulus {i}: observer counts model {:?} | crate {:?}", exp.cnt, got.cnt));
    }
    if i == last || exp.fin != "ok" { break; }
  }
  if !run.panics.is_empty() && case.stims.iter().all(|s| s.fin == "ok") {
    return Some(format!("panic {:?}", run.panics));
  }
  if let (Some(pred), Some(obs)) = (case.leak1, run.leak_sink) {
    if case.stims.iter().all(|s| s.fin == "ok") && pred != obs {
      return Some(format!("leak of the subscriber's callbacks: model {pred} | crate {obs}"));
    }
  }
  None
}
fn show(v: &[Obs]) -> String {
  v.iter().map(|o| format!("{}{}:{}{}", o.o, o.u, o.k, o.v)).collect::<Vec<_>>().join(" ")
}

/// trace lines for TLC (spec/RxSeqTrace.tla): one `reset`, one line per stimulus, one `end`
pub fn trace_lines(id: u64, case: &Case, run: &Run, out: &mut Vec<String>) {
  out.push(serde_json::json!({"ev": "reset", "id": id, "root": case.root, "cfg": case.cfg, "rev": case.rev}).to_string());
  for s in &run.stims {
    out.push(serde_json::json!({"ev": "stim", "st": s.st, "obs": s.obs, "fin": s.fin, "cnt": s.cnt, "site": s.site}).to_string());
  }
  out.push(serde_json::json!({"ev": "end", "id": id, "leak_sink": run.leak_sink.unwrap_or(false), "leak_ops": run.leak_ops.unwrap_or(false), "measured": run.leak_sink.is_some(), "truncated": run.truncated}).to_string());
}

pub fn parse_case_line(line: &str) -> Option<Case> {
  // TLC prints the JSON text as a TLA+ string: "{\"root\": ...}"
  if line.starts_with("\"{") {
    let inner: String = serde_json::from_str(line).ok()?;
    serde_json::from_str(&inner).ok()
  } else if line.starts_with('{') {
    serde_json::from_str(line).ok()
  } else {
    None
  }
}
