//! Concurrent cases: a pipeline over hot subjects / thread-emitting cold sources, driven by several logical threads
//! (emitters, a subscriber, an unsubscriber) under the controlled runtime.  Every explored schedule yields one trace of
//! visible events, totally ordered by the runtime (only one logical thread runs between two lock operations).
//!
//! case  = { "name", "root": term, "sbj": [kinds], "pre": [main-thread steps], "threads": [[steps]...], "post": [steps] }
//! step  = {"op":"sub","u":1} | {"op":"unsub","u":1} | {"op":"emit","j":1,"k":"n","v":3}   (j = harness subject)
//!         | {"op":"sleep","ms":50} | {"op":"query","u":1}
//! trace = reset, {ev: subcall|subret|unsubcall|unsubret|emitcall|emitret|cbstart|cbend|acsub|..., t: logical thread, ...}*, quiesce
use crate::term::*;
use another_rxrust::prelude::*;
use another_rxrust::schedulers::scheduler::IScheduler;
use arx_vstd::rt::{self, Config, Outcome, RunResult, Strategy};
use serde::{Deserialize, Serialize};
use serde_json::json;
use std::collections::{BTreeMap, HashSet};
use std::io::Write;
use std::sync::{Arc, Mutex};
use std::time::Duration;

#[derive(Deserialize, Serialize, Clone, Debug)]
pub struct Step {
  pub op: String,
  #[serde(default)]
  pub u: i64,
  #[serde(default)]
  pub j: i64,
  #[serde(default)]
  pub k: String,
  #[serde(default)]
  pub v: i64,
  #[serde(default)]
  pub ms: u64,
  /// task id of a `post` step (scheduler cases); tasks listed in CCase::aborting call abort() from inside
  #[serde(default)]
  pub task: i64,
  /// producer label of an `emit` step (default: the subject index); items are 10*p + i
  #[serde(default)]
  pub p: i64,
}
#[derive(Deserialize, Serialize, Clone, Debug)]
pub struct CCase {
  pub name: String,
  pub root: Term,
  #[serde(default)]
  pub sbj: Vec<String>,
  #[serde(default)]
  pub pre: Vec<Step>,
  pub threads: Vec<Vec<Step>>,
  #[serde(default)]
  pub post: Vec<Step>,
  /// catalogue tags used by the trace specifications (which clauses apply)
  #[serde(default)]
  pub tags: Vec<String>,
  /// "" (pipeline case) | "queue" (new-thread scheduler) | "default_queue" (default scheduler)
  #[serde(default)]
  pub kind: String,
  #[serde(default)]
  pub aborting: Vec<i64>,
  #[serde(default)]
  pub posting: Vec<i64>,
  /// timer period / delay of the case in ms (time-based cases)
  #[serde(default)]
  pub period: i64,
  /// a slow consumer: the subscriber's next callback sleeps slow_ms (virtual time) when it receives the item slow_item
  #[serde(default)]
  pub slow_item: i64,
  #[serde(default)]
  pub slow_ms: u64,
  /// a feedback consumer: when subscriber 1 receives the item fb_item, its next callback calls next(fb_v) on the hot source fb_src
  /// (0 = no feedback) - the downstream callback drives the upstream source re-entrantly, on whatever thread delivers the item
  #[serde(default)]
  pub fb_item: i64,
  #[serde(default)]
  pub fb_src: i64,
  #[serde(default)]
  pub fb_v: i64,
  /// connectables (publish / ref_count / replay over a source term), referenced by the term `conn`
  #[serde(default)]
  pub conn: Vec<crate::seq::ConnCfg>,
  /// what subscriber 1 must have been delivered at the end ([[kind, value], ...]); only read by the monitors that say so
  #[serde(default)]
  pub expect: Vec<(String, i64)>,
}

pub fn ev(v: serde_json::Value) {
  rt::emit(v.to_string());
}

#[derive(Clone)]
enum Sched {
  None,
  NewThread(schedulers::NewThreadScheduler<'static>),
  Default(schedulers::DefaultScheduler),
}
impl Sched {
  fn post<F: Fn() + Clone + Send + Sync + 'static>(&self, f: F) {
    match self {
      Sched::NewThread(s) => s.post(f),
      Sched::Default(s) => s.post(f),
      Sched::None => {}
    }
  }
  fn abort(&self) {
    match self {
      Sched::NewThread(s) => s.abort(),
      Sched::Default(s) => s.abort(),
      Sched::None => {}
    }
  }
}
struct Shared {
  w: W,
  root: O,
  handles: Mutex<BTreeMap<i64, Subscription<'static>>>,
  sched: Sched,
  fut: Mutex<Option<std::pin::Pin<Box<another_rxrust::operators::to_vec::ToVec<'static, i64>>>>>,
  aborting: Vec<i64>,
  posting: Vec<i64>,
  slow: (i64, u64),
  fb: (i64, i64, i64),
  /// cases tagged `count`: every emit step first records how many observers its subject holds
  count: bool,
}

fn do_step(sh: &Arc<Shared>, st: &Step) {
  match st.op.as_str() {
    "sub" => {
      let u = st.u;
      let slow = sh.slow;
      let fb = sh.fb;
      let fbw = sh.w.clone();
      ev(json!({"ev": "subcall", "u": u}));
      let sb = sh.root.subscribe(
        move |x| {
          ev(json!({"ev": "cbstart", "u": u, "k": "n", "v": if x >= OBS_BASE { OBS_BASE } else { x }}));
          if slow.1 > 0 && x == slow.0 {
            arx_vstd::thread::sleep(Duration::from_millis(slow.1));
          }
          if u == 1 && fb.1 > 0 && x == fb.0 {
            let s = fbw.lock().unwrap().sbj[fb.1 as usize - 1].clone();
            ev(json!({"ev": "emitcall", "src": fb.1, "k": "n", "v": fb.2, "fb": 1}));
            s.next(fb.2);
            ev(json!({"ev": "emitret", "src": fb.1, "k": "n", "v": fb.2, "fb": 1}));
          }
          ev(json!({"ev": "cbend", "u": u, "k": "n", "v": if x >= OBS_BASE { OBS_BASE } else { x }}));
        },
        move |e| {
          ev(json!({"ev": "cbstart", "u": u, "k": "e", "v": payload(&e)}));
          ev(json!({"ev": "cbend", "u": u, "k": "e", "v": payload(&e)}));
        },
        move || {
          ev(json!({"ev": "cbstart", "u": u, "k": "c", "v": 0}));
          ev(json!({"ev": "cbend", "u": u, "k": "c", "v": 0}));
        },
      );
      sh.handles.lock().unwrap().insert(u, sb);
      ev(json!({"ev": "subret", "u": u}));
    }
    "unsub" => {
      let h = sh.handles.lock().unwrap().get(&st.u).cloned();
      if let Some(h) = h {
        ev(json!({"ev": "unsubcall", "u": st.u}));
        h.unsubscribe();
        ev(json!({"ev": "unsubret", "u": st.u}));
      } else {
        ev(json!({"ev": "unsubskip", "u": st.u}));
      }
    }
    "query" => {
      let h = sh.handles.lock().unwrap().get(&st.u).cloned();
      if let Some(h) = h {
        ev(json!({"ev": "issub", "u": st.u, "v": h.is_subscribed() as i64}));
      }
    }
    "emit" => {
      let s = sh.w.lock().unwrap().sbj[st.j as usize - 1].clone();
      let src = if st.p != 0 { st.p } else { st.j };
      if sh.count {
        let cnt = s.count();
        ev(json!({"ev": "emitcall", "src": src, "k": st.k, "v": st.v, "cnt": cnt}));
      } else {
        ev(json!({"ev": "emitcall", "src": src, "k": st.k, "v": st.v}));
      }
      match st.k.as_str() {
        "n" => s.next(st.v),
        "e" => s.error(st.v),
        _ => s.complete(),
      }
      ev(json!({"ev": "emitret", "src": src, "k": st.k, "v": st.v}));
    }
    "sleep" => arx_vstd::thread::sleep(Duration::from_millis(st.ms)),
    "post" => {
      let task = st.task;
      ev(json!({"ev": "postcall", "task": task}));
      let (sc, ab, po) = (sh.sched.clone(), sh.aborting.contains(&task), sh.posting.contains(&task));
      sh.sched.post(move || {
        ev(json!({"ev": "start", "task": task}));
        if ab {
          ev(json!({"ev": "abortcall", "task": 0}));
          sc.abort();
          ev(json!({"ev": "abortret", "task": 0}));
        }
        if po {
          let t2 = task + 100;
          ev(json!({"ev": "postcall", "task": t2}));
          sc.post(move || {
            ev(json!({"ev": "start", "task": t2}));
            ev(json!({"ev": "end", "task": t2}));
          });
          ev(json!({"ev": "postret", "task": t2}));
        }
        ev(json!({"ev": "end", "task": task}));
      });
      ev(json!({"ev": "postret", "task": task}));
    }
    // C18: a minimal executor built on the facade's primitives drives the future returned by to_vec()
    "tovec_start" => {
      // ToVec<'a, _> only carries 'a in a PhantomData tied to `&self`; the observable itself is 'static
      let f: another_rxrust::operators::to_vec::ToVec<'static, i64> = unsafe { std::mem::transmute(sh.root.to_vec()) };
      *sh.fut.lock().unwrap() = Some(Box::pin(f));
      ev(json!({"ev": "subret", "u": 1}));
    }
    "tovec_wait" | "tovec_wait2" => {
      let fresh = st.op == "tovec_wait2";
      use std::future::Future;
      use std::task::{Context, Poll, Wake, Waker};
      struct Flag {
        m: arx_vstd::sync::Mutex<bool>,
        c: arx_vstd::sync::Condvar,
      }
      impl Wake for Flag {
        fn wake(self: Arc<Self>) {
          ev(json!({"ev": "wake"}));
          *self.m.lock().unwrap() = true;
          self.c.notify_one();
        }
      }
      let mut fut = sh.fut.lock().unwrap().take().expect("tovec_start first");
      let mut flag = Arc::new(Flag { m: arx_vstd::sync::Mutex::new(false), c: arx_vstd::sync::Condvar::new() });
      let mut first = true;
      loop {
        if fresh {
          // an executor that builds a new waker for every poll (will_wake() of the previous one is false)
          flag = Arc::new(Flag { m: arx_vstd::sync::Mutex::new(false), c: arx_vstd::sync::Condvar::new() });
        }
        let waker = Waker::from(flag.clone());
        let mut cx = Context::from_waker(&waker);
        match fut.as_mut().poll(&mut cx) {
          Poll::Ready(Ok(v)) => {
            ev(json!({"ev": "poll", "k": "ready", "v": enc_list(&v.read().unwrap())}));
            break;
          }
          Poll::Ready(Err(e)) => {
            ev(json!({"ev": "poll", "k": "err", "v": payload(&e)}));
            break;
          }
          Poll::Pending => {
            ev(json!({"ev": "poll", "k": "pending", "v": 0}));
            if fresh && first {
              // poll once more straight away (a spurious re-poll), with yet another waker
              first = false;
              continue;
            }
            let mut g = flag.m.lock().unwrap();
            while !*g {
              g = flag.c.wait(g).unwrap();
            }
            *g = false;
          }
        }
      }
    }
    "abort" => {
      ev(json!({"ev": "abortcall", "task": 0}));
      sh.sched.abort();
      ev(json!({"ev": "abortret", "task": 0}));
    }
    other => panic!("unknown step {other}"),
  }
}

pub fn run_ccase(case: &CCase, strategy: Strategy, log_locks: bool, budget: u64) -> RunResult {
  let case = case.clone();
  arx_vstd::collections::REVERSE.store(false, std::sync::atomic::Ordering::Relaxed);
  rt::run(Config { strategy, budget, writer_pref: true, log_locks }, move || {
    let w: W = Arc::new(Mutex::new(World { cur: 0, in_cur: 0, log: vec![], regs: vec![vec![]; 4], inner: vec![], sbj: vec![], conn: vec![], tok_ops: Arc::new(()), slot1: None }));
    let sbjs: Vec<Sbj> = case.sbj.iter().map(|k| Sbj::new(k)).collect();
    w.lock().unwrap().sbj = sbjs;
    let mut conns = vec![];
    for cc in &case.conn {
      let src = build(&cc.term, &w);
      conns.push(match cc.kind.as_str() {
        "publish" => ConnObj::Publish(src.publish()),
        "ref_count" => ConnObj::RefCount(src.ref_count()),
        _ => ConnObj::Replay(src.replay()),
      });
    }
    w.lock().unwrap().conn = conns;
    let root = build(&case.root, &w);
    let sched = match case.kind.as_str() {
      "queue" => Sched::NewThread(schedulers::NewThreadScheduler::new()),
      "default_queue" => Sched::Default(schedulers::DefaultScheduler::new()),
      _ => Sched::None,
    };
    let sh = Arc::new(Shared { w: w.clone(), root, handles: Mutex::new(BTreeMap::new()), sched, fut: Mutex::new(None), aborting: case.aborting.clone(), posting: case.posting.clone(), slow: (case.slow_item, case.slow_ms), fb: (case.fb_item, case.fb_src, case.fb_v), count: case.tags.iter().any(|t| t == "count") });
    for st in &case.pre {
      do_step(&sh, st);
    }
    let mut hs = vec![];
    for th in case.threads.iter() {
      let (sh2, th2) = (sh.clone(), th.clone());
      hs.push(arx_vstd::thread::spawn(move || {
        ev(json!({"ev": "hthread"}));       // a thread of the harness, not one the library started
        for st in &th2 {
          do_step(&sh2, st);
        }
      }));
    }
    for h in hs {
      h.join().ok();
    }
    for st in &case.post {
      do_step(&sh, st);
    }
    ev(json!({"ev": "joined"}));
  })
}

/// one trace as ndjson lines; `key` is the de-duplication key (content without sequence numbers / clock)
pub fn trace_of(id: u64, case: &CCase, r: &RunResult) -> (Vec<String>, String) {
  let mut lines = vec![];
  let mut key = String::new();
  lines.push(json!({"ev": "reset", "id": id, "name": case.name, "root": case.root, "sbj": case.sbj, "tags": case.tags, "nthreads": case.threads.len(), "kind": case.kind, "period": case.period, "expect": case.expect}).to_string());
  for e in r.events.iter() {
    if !e.what.starts_with('{') {
      continue; // spawn / join notes of the runtime
    }
    let mut v: serde_json::Value = match serde_json::from_str(&e.what) {
      Ok(v) => v,
      Err(_) => continue,
    };
    let o = v.as_object_mut().unwrap();
    o.insert("t".into(), json!(e.tid));
    o.insert("clk".into(), json!(e.clock / 1_000_000));
    for f in ["u", "src", "v", "task", "lock", "cv", "issub", "cnt", "fb"] {
      o.entry(f).or_insert(json!(0));
    }
    o.entry("k").or_insert(json!(""));
    let s = v.to_string();
    key.push_str(&s);
    key.push('\n');
    lines.push(s);
  }
  let (fin, blocked): (&str, Vec<String>) = match &r.outcome {
    Outcome::AllFinished => ("ok", vec![]),
    Outcome::Deadlock(b) => ("stuck", b.iter().map(|(t, s)| format!("t{t}: {s}")).collect()),
    Outcome::StepBudget => ("budget", vec![]),
  };
  let fin = if !r.panics.is_empty() { "panic" } else { fin };
  let q = json!({"ev": "quiesce", "id": id, "fin": fin, "blocked": blocked, "nblocked": blocked.len(), "nparked": blocked.iter().filter(|b| b.contains("parked on condvar")).count(), "panics": r.panics.iter().map(|(t, p)| format!("t{t}: {p}")).collect::<Vec<_>>(), "t": 0, "clk": r.clock / 1_000_000, "u": 0, "src": 0, "v": 0, "k": "", "task": 0});
  key.push_str(&format!("{fin}"));
  lines.push(q.to_string());
  (lines, key)
}

pub struct Explored {
  pub runs: u64,
  pub distinct: u64,
  pub exhausted: bool,
}

/// explore schedules of one case: bounded-preemption DFS (complete within the bound) or seeded random
pub fn explore(case: &CCase, mode: &str, bound: usize, max_runs: u64, seed: u64, id_base: u64, out: &mut dyn Write, scheds: &mut Vec<serde_json::Value>, budget: u64, log_locks: bool) -> Explored {
  let mut seen: HashSet<String> = HashSet::new();
  let mut runs = 0u64;
  let mut exhausted = false;
  let mut emit = |r: &RunResult, strat: serde_json::Value, seen: &mut HashSet<String>| {
    let id = id_base + seen.len() as u64 + 1;
    let (lines, key) = trace_of(id, case, r);
    if seen.insert(key) {
      for l in lines {
        writeln!(out, "{l}").unwrap();
      }
      scheds.push(json!({"id": id, "case": case.name, "strategy": strat}));
    }
  };
  if mode == "dfs" {
    let mut prefix: Vec<usize> = vec![];
    loop {
      let r = run_ccase(case, Strategy::Dfs { prefix: prefix.clone() }, log_locks, budget);
      runs += 1;
      emit(&r, json!({"dfs": prefix}), &mut seen);
      // next prefix: backtrack to the deepest choice that has an untried alternative within the preemption bound
      let ch = &r.choices;
      let mut i = ch.len();
      let mut next: Option<Vec<usize>> = None;
      while i > 0 {
        i -= 1;
        let c = &ch[i];
        if c.chosen + 1 < c.n_enabled {
          let mut cand: Vec<usize> = ch[..i].iter().map(|c| c.chosen).collect();
          cand.push(c.chosen + 1);
          let mut pre = 0;
          for (j, cc) in ch[..=i].iter().enumerate() {
            if cc.cur_idx.is_some() && cand[j] != 0 {
              pre += 1;
            }
          }
          if pre <= bound {
            next = Some(cand);
            break;
          }
        }
      }
      match next {
        Some(p) => prefix = p,
        None => {
          exhausted = true;
          break;
        }
      }
      if runs >= max_runs {
        break;
      }
    }
  } else if mode == "sweep" {
    // every schedule that deviates from the default one at exactly ONE choice point (any alternative there) and follows the
    // default policy afterwards: linear in the length of the run, and it reaches the early preemptions that the depth-first
    // enumeration only gets to last
    let r0 = run_ccase(case, Strategy::Dfs { prefix: vec![] }, log_locks, budget);
    runs += 1;
    emit(&r0, json!({"dfs": Vec::<usize>::new()}), &mut seen);
    let base: Vec<usize> = r0.choices.iter().map(|c| c.n_enabled).collect();
    exhausted = true;
    'outer: for (i, n) in base.iter().enumerate() {
      for k in 1..*n {
        if runs >= max_runs {
          exhausted = false;
          break 'outer;
        }
        let mut prefix = vec![0usize; i];
        prefix.push(k);
        let r = run_ccase(case, Strategy::Dfs { prefix: prefix.clone() }, log_locks, budget);
        runs += 1;
        emit(&r, json!({"dfs": prefix}), &mut seen);
      }
    }
  } else {
    for i in 0..max_runs {
      let s = seed.wrapping_mul(1_000_003).wrapping_add(i + 1);
      let r = run_ccase(case, Strategy::Random { seed: s }, log_locks, budget);
      runs += 1;
      emit(&r, json!({"random": s}), &mut seen);
    }
  }
  Explored { runs, distinct: seen.len() as u64, exhausted }
}
